(** * Body: model of src/body.rs (BodyWriter, chunk writer, calculate_max_input, BodyReader). *)
From Hoot Require Import Base Chunk.
Open Scope N_scope.

(* ------------------------------------------------------------------ writer *)

Inductive smode :=
| SNone
| SSized (lft : N)
| SChunked.

Record writer := { w_mode : smode; w_ended : bool }.

Definition new_none := {| w_mode := SNone; w_ended := true |}.
Definition new_chunked := {| w_mode := SChunked; w_ended := false |}.
Definition new_sized (n : N) := {| w_mode := SSized n; w_ended := false |}.

Definition has_body (w : writer) : bool :=
  match w_mode w with SNone => false | _ => true end.
Definition w_is_chunked (w : writer) : bool :=
  match w_mode w with SChunked => true | _ => false end.
Definition left_to_send (w : writer) : option N :=
  match w_mode w with SSized v => Some v | _ => None end.

Definition TERMINATOR : bytes := [48; 13; 10; 13; 10].   (* "0\r\n\r\n" *)

(** [max_chunk_fit]: largest chunk length, capped by [maxc], whose size line, data and two CRLF fit
    in [avail] bytes. Same loop as the Rust code; 20 iterations cover every 64-bit value. *)
Fixpoint fit_loop (fuel : nat) (avail maxc best digits lowest : N) : N :=
  match fuel with
  | O => best
  | S f =>
      if (lowest <=? maxc) && (lowest + digits + CHUNK_LINE_OVERHEAD <=? avail)
      then fit_loop f avail maxc
                    (N.min (lowest * 16 - 1) (avail - digits - CHUNK_LINE_OVERHEAD))
                    (digits + 1) (lowest * 16)
      else best
  end.
Definition max_chunk_fit (avail maxc : N) : N := fit_loop 20 avail maxc 0 1 1.

Definition enc_chunk_n (n : N) (input : bytes) : bytes :=
  hex_of n ++ CRLF ++ take n input ++ CRLF.

(** One [write_chunk]: [Some (consumed, bytes written)] on success, [None] when nothing was written. *)
Definition write_chunk (input : bytes) (avail maxc : N) : option (N * bytes) :=
  let to_write := N.min (N.min (len input) maxc) (max_chunk_fit avail maxc) in
  if to_write =? 0 then None
  else
    let out := enc_chunk_n to_write input in
    if len out <=? avail then Some (to_write, out) else None.

(** The [while write_chunk(..) {}] loop. Every successful iteration consumes at least one byte,
    so [S (length input)] iterations suffice. *)
Fixpoint chunk_loop (fuel : nat) (input : bytes) (avail : N) (used : N) (out : bytes) : N * bytes :=
  match fuel with
  | O => (used, out)
  | S f =>
      match write_chunk input avail DEFAULT_CHUNK_SIZE with
      | None => (used, out)
      | Some (n, o) =>
          if n <? len input
          then chunk_loop f (drop n input) (avail - len o) (used + n) (out ++ o)
          else (used + n, out ++ o)
      end
  end.

(** [BodyWriter::write]: new writer, input consumed, bytes written. *)
Definition writer_write (w : writer) (input : bytes) (cap : N) : res (writer * N * bytes) :=
  match w_mode w with
  | SNone => Panic "body.rs: SenderMode::None in write"
  | SSized lft =>
      let n := N.min (N.min cap (len input)) lft in
      let lft' := lft - n in
      Ok ({| w_mode := SSized lft'; w_ended := if lft' =? 0 then true else w_ended w |},
          n, take n input)
  | SChunked =>
      match input with
      | [] =>
          if negb (w_ended w) && (len TERMINATOR <=? cap)
          then Ok ({| w_mode := SChunked; w_ended := true |}, 0, TERMINATOR)
          else Ok (w, 0, [])
      | _ =>
          let '(used, out) := chunk_loop (S (length input)) input cap 0 [] in
          Ok (w, used, out)
      end
  end.

Definition writer_direct (w : writer) (amount : N) : res writer :=
  match w_mode w with
  | SNone => Panic "body.rs: SenderMode::None in consume_direct_write"
  | SSized lft =>
      let lft' := lft - amount in
      Ok {| w_mode := SSized lft'; w_ended := if lft' =? 0 then true else w_ended w |}
  | SChunked => Panic "body.rs: SenderMode::Chunked in consume_direct_write"
  end.

Definition body_header (w : writer) : res header :=
  match w_mode w with
  | SNone => Panic "body.rs: SenderMode::None in body_header"
  | SSized n => Ok (s2b "content-length", dec_of n)
  | SChunked => Ok (s2b "transfer-encoding", s2b "chunked")
  end.

Definition calculate_max_input (output_len : N) : N :=
  let both := DEFAULT_CHUNK_SIZE + DEFAULT_CHUNK_OVERHEAD in
  let chunks := output_len / both in
  let remaining := output_len mod both in
  let tail := if remaining <=? DEFAULT_CHUNK_OVERHEAD then 0 else remaining - DEFAULT_CHUNK_OVERHEAD in
  chunks * DEFAULT_CHUNK_SIZE + tail.

(* ------------------------------------------------------------------ reader *)

Inductive reader :=
| RNoBody
| RLength (lft : N)
| RChunked (d : dechunker)
| RClose.

Inductive body_mode := BMNoBody | BMLength (n : N) | BMChunked | BMClose.

(** What the decoder is left as when a call FAILS.  The Rust [Dechunker] is mutated in place, so after an error the
    object keeps the state it had reached at the transition that failed ([read_size] fails in [Size], [expect_crlf] in
    [CrLf]); everything the failed call had consumed or produced before is lost to the caller (the error carries no
    counts).  These functions follow the same loops and return that state (for a call that succeeds they return the
    state it ends in). *)
Fixpoint parse_input_err_state (fuel : nat) (d : dechunker) (src : bytes) (room : N) : dechunker :=
  match fuel with
  | O => d
  | S f =>
      match dech_step d src room with
      | Ok r =>
          if sr_more r
          then parse_input_err_state f (sr_st r) (drop (sr_in r) src) (room - len (sr_out r))
          else sr_st r
      | _ => d
      end
  end.

Fixpoint read_chunked_err_state (fuel : nat) (d : dechunker) (src : bytes) (room : N) (stop : bool) : dechunker :=
  match fuel with
  | O => d
  | S f =>
      match parse_input d src room with
      | Ok (d', i, o) =>
          let src' := drop i src in
          let room' := room - len o in
          if (i =? 0) || (len src' =? 0) || (room' =? 0) then d'
          else if dech_is_ended d' then d'
          else if stop && is_on_chunk_boundary d' then d'
          else read_chunked_err_state f d' src' room' stop
      | _ => parse_input_err_state (2 * length src + 3) d src room
      end
  end.

Definition reader_mode (r : reader) : body_mode :=
  match r with
  | RNoBody => BMNoBody
  | RLength v => BMLength v
  | RChunked _ => BMChunked
  | RClose => BMClose
  end.

Definition reader_is_ended (r : reader) : bool :=
  match r with
  | RNoBody => true
  | RLength v => v =? 0
  | RChunked d => dech_is_ended d
  | RClose => false
  end.

Definition reader_on_boundary (r : reader) : bool :=
  match r with RChunked d => is_on_chunk_boundary d | _ => false end.

Definition reader_is_close (r : reader) : bool :=
  match r with RClose => true | _ => false end.

(** [compare_lowercase_ascii a lowercased]. Bytes >= 0x80 never compare equal (in Rust they are
    either non-ASCII chars, rejected, or make the char count differ from the byte count). *)
Fixpoint cmp_lower (a l : bytes) : bool :=
  match a, l with
  | [], [] => true
  | x :: a', y :: l' => (x <? 128) && (to_lower x =? y) && cmp_lower a' l'
  | _, _ => false
  end.

(** [header_defined]: [cl]/[te] are what [header_lookup] returns (first field, text only). *)
Definition all_digits (s : bytes) : bool := forallb is_digit s.

Definition te_has_chunked (v : bytes) : bool :=
  existsb (fun e => cmp_lower (trim e) (s2b "chunked")) (split_on 44 v []).

Definition header_defined (http10 : bool) (cl te : option bytes) : res reader :=
  do content_length <-
     match cl with
     | None => Ok None
     | Some v =>
         if negb (all_digits v) then Err BadContentLengthHeader else
         match parse_dec_u64 v with
         | None => Err BadContentLengthHeader
         | Some n => Ok (Some n)
         end
     end;
  let chunked := match te with Some v => te_has_chunked v | None => false end in
  if chunked && negb http10 then Ok (RChunked DSize)
  else match content_length with
       | Some n => Ok (RLength n)
       | None => Ok RClose
       end.

Definition is_head (m : bytes) := beq_bytes m (s2b "HEAD").
Definition is_connect (m : bytes) := beq_bytes m (s2b "CONNECT").

Definition for_response (http10 : bool) (is_head_m is_connect_m : bool) (status : N)
           (cl te : option bytes) : res reader :=
  let is_success := (200 <=? status) && (status <=? 299) in
  let is_informational := (100 <=? status) && (status <=? 199) in
  let is_redirect := (300 <=? status) && (status <=? 399) && negb (status =? 304) in
  do hd <- header_defined http10 cl te;
  (* presence of a content-length or transfer-encoding header (as header_lookup sees them: first field, text only) *)
  let has_body_header := match cl, te with None, None => false | _, _ => true end in
  let has_no_body :=
      is_head_m || (is_success && is_connect_m) || is_informational
      || (status =? 204) || (status =? 304) || (is_redirect && negb has_body_header) in
  if has_no_body then Ok RNoBody else Ok hd.

(** The reader after a [read] that returned an error (only the chunked reader can fail). *)
Definition reader_after_err (r : reader) (src : bytes) (room : N) (stop : bool) : reader :=
  match r with
  | RChunked d => RChunked (read_chunked_err_state (length src + 1) d src room stop)
  | _ => r
  end.

(** [BodyReader::read]: new reader, input consumed, bytes produced. *)
Definition reader_read (r : reader) (src : bytes) (room : N) (stop : bool) : res (reader * N * bytes) :=
  match r with
  | RLength lft =>
      let n := N.min (N.min (len src) room) lft in
      Ok (RLength (lft - n), n, take n src)
  | RChunked d =>
      do x <- read_chunked d src room stop;
      let '(d', i, o) := x in Ok (RChunked d', i, o)
  | RClose =>
      let n := N.min (len src) room in
      Ok (RClose, n, take n src)
  | RNoBody => Ok (RNoBody, 0, [])
  end.
