(** * Httparse: hand-written model of httparse 1.9.5 [Response::parse] / [Request::parse] with the
    default [ParserConfig] (scalar semantics), including what is left in version / code / headers
    when the result is Partial.  MODELLED, NOT VERIFIED: tied to the real crate only by the
    correspondence check. *)
From Hoot Require Import Base.
Open Scope N_scope.

Inductive hperr := EHeaderName | EHeaderValue | ENewLine | EStatus | EToken | ETooManyHeaders | EVersion.

(** Parser result: value and remaining input, need more input, or failure. *)
Inductive pres (A : Type) :=
| Done (a : A) (rest : bytes)
| Partial
| Fail (e : hperr).
Arguments Done {A} a rest.
Arguments Partial {A}.
Arguments Fail {A} e.

Definition pbind {A B : Type} (p : pres A) (f : A -> bytes -> pres B) : pres B :=
  match p with
  | Done a r => f a r
  | Partial => Partial
  | Fail e => Fail e
  end.

(** Byte classes (the three 256-entry tables of httparse as range predicates). *)
Definition is_name_token (b : N) : bool :=
  is_digit b || is_alpha b ||
  (b =? 33) || (b =? 35) || (b =? 36) || (b =? 37) || (b =? 38) || (b =? 39) ||
  (b =? 42) || (b =? 43) || (b =? 45) || (b =? 46) ||
  (b =? 94) || (b =? 95) || (b =? 96) || (b =? 124) || (b =? 126).

Definition is_value_token (b : N) : bool :=
  (b =? 9) || ((32 <=? b) && (b <=? 126)) || ((128 <=? b) && (b <=? 255)).

Definition is_uri_token (b : N) : bool :=
  (33 <=? b) && (b <=? 126) && negb (b =? 60) && negb (b =? 62).

(** httparse's [is_token] (method): any byte in 0x20..0x7e, including the space. *)
Definition is_method_token (b : N) : bool := (31 <? b) && (b <? 127).

Definition is_reason_byte (b : N) : bool :=
  (b =? 9) || (b =? 32) || ((33 <=? b) && (b <=? 126)) || (128 <=? b).

Definition is_sp_tab (b : N) : bool := (b =? 32) || (b =? 9).

(** Longest prefix satisfying [p], and the rest. *)
Fixpoint span (p : N -> bool) (l : bytes) : bytes * bytes :=
  match l with
  | [] => ([], [])
  | x :: t => if p x then let '(a, r) := span p t in (x :: a, r) else ([], l)
  end.

Fixpoint drop_while (p : N -> bool) (l : bytes) : bytes :=
  match l with
  | [] => []
  | x :: t => if p x then drop_while p t else l
  end.

Definition rtrim_sp_tab (v : bytes) : bytes := rev (drop_while is_sp_tab (rev v)).

(** [skip_empty_lines]: returns the input after leading CRLF / LF. *)
Fixpoint skip_empty_lines (b : bytes) : pres unit :=
  match b with
  | [] => Partial
  | c :: t =>
      if c =? 13 then
        match t with
        | [] => Partial
        | d :: t' => if d =? 10 then skip_empty_lines t' else Fail ENewLine
        end
      else if c =? 10 then skip_empty_lines t
      else Done tt b
  end.

Fixpoint expect_lit (e : hperr) (lit b : bytes) : pres unit :=
  match lit with
  | [] => Done tt b
  | x :: lit' =>
      match b with
      | [] => Partial
      | y :: b' => if x =? y then expect_lit e lit' b' else Fail e
      end
  end.

(** [parse_version]: the real code compares 8 bytes at once when available and otherwise matches
    "HTTP/1." byte by byte; both are this sequential matcher (same verdict at the first mismatch,
    Partial when everything available matches). *)
Definition parse_version (b : bytes) : pres N :=
  pbind (expect_lit EVersion [72; 84; 84; 80; 47; 49; 46] b) (fun _ r =>
  match r with
  | [] => Partial
  | d :: r' => if d =? 48 then Done 0 r' else if d =? 49 then Done 1 r' else Fail EVersion
  end).

Definition expect_byte (e : hperr) (x : N) (b : bytes) : pres unit :=
  match b with
  | [] => Partial
  | y :: b' => if x =? y then Done tt b' else Fail e
  end.

Definition digit (e : hperr) (b : bytes) : pres N :=
  match b with
  | [] => Partial
  | y :: b' => if is_digit y then Done (y - 48) b' else Fail e
  end.

Definition parse_code (b : bytes) : pres N :=
  pbind (digit EStatus b) (fun h r1 =>
  pbind (digit EStatus r1) (fun t r2 =>
  pbind (digit EStatus r2) (fun o r3 => Done (h * 100 + t * 10 + o) r3))).

Fixpoint parse_reason (b : bytes) : pres unit :=
  match b with
  | [] => Partial
  | c :: t =>
      if c =? 13 then expect_byte EStatus 10 t
      else if c =? 10 then Done tt t
      else if is_reason_byte c then parse_reason t
      else Fail EStatus
  end.

(** What follows the status code: SP reason CRLF, or CRLF, or LF. *)
Definition parse_after_code (b : bytes) : pres unit :=
  match b with
  | [] => Partial
  | c :: t =>
      if c =? 32 then parse_reason t
      else if c =? 13 then expect_byte EStatus 10 t
      else if c =? 10 then Done tt t
      else Fail EStatus
  end.

(** Line end after a header value: CRLF or LF. *)
Definition value_eol (b : bytes) : pres unit :=
  match b with
  | [] => Partial
  | c :: t =>
      if c =? 13 then expect_byte EHeaderValue 10 t
      else if c =? 10 then Done tt t
      else Fail EHeaderValue
  end.

(** One iteration of the header loop: end of head ([None]) or one field. *)
Definition parse_line (b : bytes) : pres (option header) :=
  match b with
  | [] => Partial
  | c :: t =>
      if c =? 13 then pbind (expect_byte ENewLine 10 t) (fun _ r => Done None r)
      else if c =? 10 then Done None t
      else if negb (is_name_token c) then Fail EHeaderName
      else
        let '(name, r) := span is_name_token b in
        pbind (expect_byte EHeaderName 58 r) (fun _ r1 =>
        let r2 := drop_while is_sp_tab r1 in
        match r2 with
        | [] => Partial
        | _ :: _ =>
            let '(v, r3) := span is_value_token r2 in
            pbind (value_eol r3) (fun _ r4 => Done (Some (name, rtrim_sp_tab v)) r4)
        end)
  end.

(** The header loop. Returns the fields stored so far together with the outcome; a field is stored
    only when its line is complete and a slot is free; [ETooManyHeaders] only after a complete line.
    Structural recursion on the free slots would not see lines consumed without a slot, so the
    recursion is on fuel = input length (every line consumes at least one byte). *)
Fixpoint headers_loop (fuel : nat) (slots : nat) (b : bytes) : list header * pres unit :=
  match fuel with
  | O => ([], Partial)
  | S f =>
      match parse_line b with
      | Partial => ([], Partial)
      | Fail e => ([], Fail e)
      | Done None r => ([], Done tt r)
      | Done (Some h) r =>
          match slots with
          | O => ([], Fail ETooManyHeaders)
          | S k => let '(hs, o) := headers_loop f k r in (h :: hs, o)
          end
      end
  end.

Definition parse_headers (slots : nat) (b : bytes) : list header * pres unit :=
  headers_loop (S (length b)) slots b.

Inductive hstat := SComplete (n : N) | SPartial | SError (e : hperr).

Record hview := { hv_version : option N; hv_code : option N; hv_headers : list header }.

(** [Response::parse]: status, and what the struct holds afterwards. *)
Definition parse_response (slots : nat) (buf : bytes) : hstat * hview :=
  let view v c h := {| hv_version := v; hv_code := c; hv_headers := h |} in
  let stop {A} (p : pres A) v c := match p with
                                   | Fail e => (SError e, view v c [])
                                   | _ => (SPartial, view v c [])
                                   end in
  match skip_empty_lines buf with
  | Done _ b0 =>
      match parse_version b0 with
      | Done ver b1 =>
          match expect_byte EVersion 32 b1 with
          | Done _ b2 =>
              match parse_code b2 with
              | Done code b3 =>
                  match parse_after_code b3 with
                  | Done _ b4 =>
                      let '(hs, o) := parse_headers slots b4 in
                      match o with
                      | Done _ rest => (SComplete (len buf - len rest), view (Some ver) (Some code) hs)
                      | Partial => (SPartial, view (Some ver) (Some code) hs)
                      | Fail e => (SError e, view (Some ver) (Some code) hs)
                      end
                  | p => stop p (Some ver) (Some code)
                  end
              | p => stop p (Some ver) None
              end
          | p => stop p (Some ver) None
          end
      | p => stop p None None
      end
  | p => stop p None None
  end.

(** Request line pieces. *)
Definition parse_method (b : bytes) : pres bytes :=
  match b with
  | [] => Partial
  | c :: _ =>
      if negb (is_method_token c) then Fail EToken
      else
        (* first byte is taken unconditionally (it may be a space), then the run up to a space *)
        let '(run, r) := span (fun x => is_method_token x && negb (x =? 32)) (tl b) in
        match r with
        | [] => Partial
        | d :: r' => if d =? 32 then Done (c :: run) r' else Fail EToken
        end
  end.

Definition parse_uri (b : bytes) : pres bytes :=
  let '(run, r) := span is_uri_token b in
  match r with
  | [] => Partial
  | d :: r' =>
      if d =? 32 then (match run with [] => Fail EToken | _ => Done run r' end)
      else Fail EToken
  end.

Definition newline (b : bytes) : pres unit :=
  match b with
  | [] => Partial
  | c :: t =>
      if c =? 13 then expect_byte ENewLine 10 t
      else if c =? 10 then Done tt t
      else Fail ENewLine
  end.

Record hreq := { hq_method : option bytes; hq_version : option N; hq_headers : list header }.

Definition parse_request (slots : nat) (buf : bytes) : hstat * hreq :=
  let view m v h := {| hq_method := m; hq_version := v; hq_headers := h |} in
  let stop {A} (p : pres A) m v := match p with
                                   | Fail e => (SError e, view m v [])
                                   | _ => (SPartial, view m v [])
                                   end in
  match skip_empty_lines buf with
  | Done _ b0 =>
      match parse_method b0 with
      | Done m b1 =>
          match parse_uri b1 with
          | Done _ b2 =>
              match parse_version b2 with
              | Done ver b3 =>
                  match newline b3 with
                  | Done _ b4 =>
                      let '(hs, o) := parse_headers slots b4 in
                      match o with
                      | Done _ rest => (SComplete (len buf - len rest), view (Some m) (Some ver) hs)
                      | Partial => (SPartial, view (Some m) (Some ver) hs)
                      | Fail e => (SError e, view (Some m) (Some ver) hs)
                      end
                  | p => stop p (Some m) (Some ver)
                  end
              | p => stop p (Some m) None
              end
          | p => stop p (Some m) None
          end
      | p => stop p None None
      end
  | p => stop p None None
  end.
