(** * Bytes: byte strings as [list N], lengths as [N], ASCII helpers, number printing/parsing.
    Definitions only; lemmas live in proofs/. *)
From Coq Require Export List NArith Bool.
Export ListNotations.
Open Scope N_scope.

Definition byte := N.
Definition bytes := list N.

(** Length as a binary number (lengths, counts and capacities are [N] everywhere). *)
Fixpoint len {A : Type} (l : list A) : N :=
  match l with
  | [] => 0
  | _ :: t => N.succ (len t)
  end.

(** [take]/[drop] by an [N] count: structural on the list, never converts the count to [nat]
    (declared lengths reach 2^64). *)
Fixpoint take {A : Type} (n : N) (l : list A) : list A :=
  match l with
  | [] => []
  | x :: t => if n =? 0 then [] else x :: take (N.pred n) t
  end.

Fixpoint drop {A : Type} (n : N) (l : list A) : list A :=
  match l with
  | [] => []
  | x :: t => if n =? 0 then l else drop (N.pred n) t
  end.

Fixpoint beq_bytes (a b : bytes) : bool :=
  match a, b with
  | [], [] => true
  | x :: a', y :: b' => (x =? y) && beq_bytes a' b'
  | _, _ => false
  end.

Definition mem_bytes (x : bytes) (l : list bytes) : bool := existsb (beq_bytes x) l.

Fixpoint is_prefix (p l : bytes) : bool :=
  match p, l with
  | [], _ => true
  | x :: p', y :: l' => (x =? y) && is_prefix p' l'
  | _ :: _, [] => false
  end.

(** Characters. *)
Definition CR : N := 13.
Definition LF : N := 10.
Definition SP : N := 32.
Definition HTAB : N := 9.
Definition CRLF : bytes := [13; 10].

Definition is_digit (b : N) : bool := (48 <=? b) && (b <=? 57).
Definition is_upper (b : N) : bool := (65 <=? b) && (b <=? 90).
Definition is_lower (b : N) : bool := (97 <=? b) && (b <=? 122).
Definition is_alpha (b : N) : bool := is_upper b || is_lower b.
Definition to_lower (b : N) : N := if is_upper b then b + 32 else b.
Definition lower (s : bytes) : bytes := map to_lower s.

(** [char::is_whitespace] restricted to ASCII, as used by [str::trim]. *)
Definition is_ascii_ws (b : N) : bool := ((9 <=? b) && (b <=? 13)) || (b =? 32).

Fixpoint trim_start (s : bytes) : bytes :=
  match s with
  | [] => []
  | b :: t => if is_ascii_ws b then trim_start t else s
  end.
Definition trim_end (s : bytes) : bytes := rev (trim_start (rev s)).
Definition trim (s : bytes) : bytes := trim_end (trim_start s).

(** http::HeaderValue::to_str: visible ASCII or tab. *)
Definition is_visible_ascii (b : N) : bool := ((32 <=? b) && (b <? 127)) || (b =? 9).
Definition is_text (s : bytes) : bool := forallb is_visible_ascii s.

(** Hexadecimal / decimal digits. *)
Definition hex_digit (d : N) : N := if d <? 10 then 48 + d else 87 + d.   (* lower case *)
Definition dec_digit (d : N) : N := 48 + d.

Fixpoint hex_aux (fuel : nat) (n : N) (acc : bytes) : bytes :=
  match fuel with
  | O => acc
  | S f => if n <? 16 then hex_digit n :: acc
           else hex_aux f (n / 16) (hex_digit (n mod 16) :: acc)
  end.
(** Lower-case hexadecimal without leading zeros ("0" for zero): [{:x}]. *)
Definition hex_of (n : N) : bytes := hex_aux (S (N.size_nat n)) n [].

Fixpoint dec_aux (fuel : nat) (n : N) (acc : bytes) : bytes :=
  match fuel with
  | O => acc
  | S f => if n <? 10 then dec_digit n :: acc
           else dec_aux f (n / 10) (dec_digit (n mod 10) :: acc)
  end.
(** Decimal ([Display] of an unsigned integer). *)
Definition dec_of (n : N) : bytes := dec_aux (S (N.size_nat n)) n [].

Definition hexval (b : N) : option N :=
  if is_digit b then Some (b - 48)
  else if (97 <=? b) && (b <=? 102) then Some (b - 87)
  else if (65 <=? b) && (b <=? 70) then Some (b - 55)
  else None.

Definition U64_LIMIT : N := 18446744073709551616.

(** Accumulating digit parser with a 2^64 limit: [None] on a bad digit or overflow. *)
Fixpoint parse_digits (radix : N) (dv : N -> option N) (s : bytes) (acc : N) : option N :=
  match s with
  | [] => Some acc
  | b :: t =>
      match dv b with
      | None => None
      | Some d =>
          let acc' := acc * radix + d in
          if acc' <? U64_LIMIT then parse_digits radix dv t acc' else None
      end
  end.

Definition decval (b : N) : option N := if is_digit b then Some (b - 48) else None.

(** [u64::from_str] on a string already checked to be all digits (the empty string fails). *)
Definition parse_dec_u64 (s : bytes) : option N :=
  match s with
  | [] => None
  | _ => parse_digits 10 decval s 0
  end.

(** [usize::from_str_radix(s, 16)]: optional leading '+', at least one digit, below 2^64. *)
Definition parse_hex_usize (s : bytes) : option N :=
  let s' := match s with 43 :: t => t | _ => s end in
  match s' with
  | [] => None
  | _ => parse_digits 16 hexval s' 0
  end.

(** Position of the first element satisfying [p]. *)
Fixpoint position {A : Type} (p : A -> bool) (l : list A) : option N :=
  match l with
  | [] => None
  | x :: t => if p x then Some 0 else option_map N.succ (position p t)
  end.

(** Split on a separator byte (like [str::split]). *)
Fixpoint split_on (sep : N) (s : bytes) (cur : bytes) : list bytes :=
  match s with
  | [] => [rev cur]
  | b :: t => if b =? sep then rev cur :: split_on sep t [] else split_on sep t (b :: cur)
  end.

Definition str (s : list N) : bytes := s.
