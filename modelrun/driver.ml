(* modelrun: reads scripts (text), runs the extracted Coq model, prints observations.
   Input:   S <id> / one operation per line / E
   Tokens:  #<decimal>  number;  x<hex>  byte string;  anything else  word
   Output:  S <id> / one observation line per operation / E   (same token syntax) *)
module M = Model
type str = Stdlib.String.t

let rec pos_of_int (i : int) : M.positive =
  if i = 1 then M.XH else if i land 1 = 1 then M.XI (pos_of_int (i lsr 1)) else M.XO (pos_of_int (i lsr 1))
let n_of_int (i : int) : M.n = if i = 0 then M.N0 else M.Npos (pos_of_int i)
let byte_tab : M.n array = Array.init 256 n_of_int
let rec int_of_pos = function M.XH -> 1 | M.XO p -> 2 * int_of_pos p | M.XI p -> 2 * int_of_pos p + 1
let int_of_n = function M.N0 -> 0 | M.Npos p -> int_of_pos p

let bytes_of_string (s : str) : M.n list =
  let r = Stdlib.ref [] in
  for i = String.length s - 1 downto 0 do r := byte_tab.(Char.code s.[i]) :: !r done; !r

let hexv c = match c with
  | '0'..'9' -> Char.code c - 48 | 'a'..'f' -> Char.code c - 87 | 'A'..'F' -> Char.code c - 55
  | _ -> failwith "bad hex"

let bytes_of_hex (s : str) (from : int) : M.n list =
  let r = Stdlib.ref [] in
  let i = Stdlib.ref (String.length s - 2) in
  while !i >= from do
    r := byte_tab.(hexv s.[!i] * 16 + hexv s.[!i + 1]) :: !r; i := !i - 2
  done; !r

(* z<count>: <count> pattern bytes (i*7+3) mod 256 -- keeps scripts with large inputs small *)
let pattern_bytes (n : int) : M.n list =
  let r = Stdlib.ref [] in
  for i = n - 1 downto 0 do r := byte_tab.((i * 7 + 3) land 255) :: !r done; !r

let tok_of_string (s : str) : M.tok =
  if String.length s > 1 && s.[0] = 'z' && (try ignore (int_of_string (String.sub s 1 (String.length s - 1))); true with _ -> false)
  then M.TH (pattern_bytes (int_of_string (String.sub s 1 (String.length s - 1)))) else
  if String.length s > 0 && s.[0] = '#' then M.TN (M.n_of_dec (bytes_of_string (String.sub s 1 (String.length s - 1))))
  else if String.length s > 0 && s.[0] = 'x' && (String.length s) land 1 = 1
          && (try for i = 1 to String.length s - 1 do ignore (hexv s.[i]) done; true with _ -> false)
  then M.TH (bytes_of_hex s 1)
  else M.TW (bytes_of_string s)

let buf_add_bytes b (l : M.n list) = List.iter (fun x -> Buffer.add_char b (Char.chr (int_of_n x))) l
let hexd = "0123456789abcdef"
let print_tok b = function
  | M.TW w -> buf_add_bytes b w
  | M.TN n -> Buffer.add_char b '#'; buf_add_bytes b (M.dec_text n)
  | M.TH h -> Buffer.add_char b 'x';
            List.iter (fun x -> let v = int_of_n x in
                         Buffer.add_char b hexd.[v lsr 4]; Buffer.add_char b hexd.[v land 15]) h

let split_words (s : str) : str list =
  List.filter (fun x -> x <> "") (String.split_on_char ' ' s)

let () =
  let out = Buffer.create 65536 in
  let cur : M.tok list list Stdlib.ref = Stdlib.ref [] in
  (try
     while true do
       let line = input_line stdin in
       let n = String.length line in
       if n >= 2 && line.[0] = 'S' && line.[1] = ' ' then begin
         cur := []; Buffer.add_string out line; Buffer.add_char out '\n'
       end else if line = "E" then begin
         let obs = M.run_script (List.rev !cur) in
         List.iter (fun l ->
             let first = Stdlib.ref true in
             List.iter (fun t -> if not !first then Buffer.add_char out ' '; first := false; print_tok out t) l;
             Buffer.add_char out '\n') obs;
         Buffer.add_string out "E\n";
         print_string (Buffer.contents out); Buffer.clear out
       end else if n > 0 then
         cur := List.map tok_of_string (split_words line) :: !cur
     done
   with End_of_file -> ());
  print_string (Buffer.contents out)
