(** Extraction of the executable model for the correspondence check.
    Directives used: exactly those of ExtrOcamlBasic (bool, option, unit, list, prod, sumbool,
    sumor as OCaml types; andb / orb inlined). No integer or string mapping: N, positive, nat,
    ascii and string stay the extracted inductive types. *)
Require Import Extraction ExtrOcamlBasic.
From Hoot Require Import Base Script.
Open Scope N_scope.

(** Decimal text to N (numbers reach 2^64 and beyond, so they never pass through an OCaml int). *)
Definition n_of_dec (d : bytes) : N := fold_left (fun acc c => acc * 10 + (c - 48)) d 0.
Definition dec_text (n : N) : bytes := dec_of n.

Extraction Language OCaml.
Extraction "model.ml" run_script n_of_dec dec_text.
