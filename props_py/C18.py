"""C18 -- The advertised maximum input always fits the output buffer."""
from .lib import *

RULE = ("for each output length n: q_max_input n, then one write of exactly that many bytes into n bytes of output must "
        "consume all of it, and a write offering n bytes bounds the advertisement from above; advertised <= n; advertised non-decreasing in n. quick: every 7th n in 0..=3*10248+64 plus all "
        "hex-digit / chunk boundaries +-3 and random larger n; thorough: every n in 0..=3*10248+64 (exhaustive) plus 2000 "
        "random n up to 200000; chunked bodies reached by explicit / default framing, HTTP/1.0, send_body_despite_method, on a redirected request, after a head written in tight segments. Sized bodies: advertised = n and min(n, remaining) consumed. 60 values of n per script. "
        "non-trivial = advertised > 0 and consumed completely; distinct = distinct n")
TRUSTED_BASE = COMMON_TRUSTED_BASE
ASSUMPTIONS = ["64-bit usize"]
EXHAUSTIVE = {"quick": False, "thorough": True}
LIMIT = 3 * 10248 + 64
_stats = {}


def boundaries():
    s = set()
    for base in [0, 5, 6, 8, 9, 20, 21, 22, 23, 24, 261, 262, 263, 264, 265, 4102, 4103, 4104, 4105, 4106,
                 10248, 2 * 10248, 3 * 10248, 10248 + 8, 10248 + 9, 2 * 10248 + 8, 10248 + 21, 10248 + 264, 10248 + 4104]:
        for d in range(-3, 4):
            if 0 <= base + d <= LIMIT:
                s.add(base + d)
    return s


def generate(rng, tier, mult):
    if tier == "thorough":
        ns = list(range(0, LIMIT + 1)) + sorted(rng.randrange(LIMIT, 200000) for _ in range(2000))
    else:
        ns = sorted(set(range(0, LIMIT + 1, 7 if mult == 1 else 2)) | boundaries() | set(rng.randrange(LIMIT, 120000) for _ in range(40)))
    _stats["n_count"] = len(ns)
    scripts = []
    per = 60
    head = [op_new("POST", "1.1", "http", "a.test", "/", []), "proceed", "write_head #4096", "proceed", "q_is_chunked"]
    for i in range(0, len(ns), per):
        ops = list(head)
        for n in ns[i:i + per]:
            ops.append("q_max_input %s" % num(n))
            if calc_max_input(n) > 0:
                ops.append("write_sum z%d %s" % (calc_max_input(n), num(n)))
            if n > 0:
                ops.append("write_sum z%d %s" % (n, num(n)))       # n bytes offered: what one write can take at most
        if i == 0:
            ops += END_SMALL
        scripts.append({"ops": ops, "meta": {"kind": "chunked", "ns": ns[i:i + per]}})
    # chunked bodies reached in other ways: explicit Transfer-Encoding, Transfer-Encoding together with a Content-Length (chunked
    # wins, both orders), body-less method with send_body_despite_method
    variants = [[op_new("POST", "1.1", "http", "a.test", "/", [("transfer-encoding", "chunked")])],
                [op_new("PUT", "1.1", "http", "a.test", "/", [("transfer-encoding", "chunked"), ("content-length", "100000")])],
                [op_new("POST", "1.1", "http", "a.test", "/", [("content-length", "100000"), ("transfer-encoding", "chunked")])],
                [op_new("GET", "1.1", "http", "a.test", "/", []), "despite"]]
    REDIR = b"HTTP/1.1 302 Found\r\nLocation: /next\r\nContent-Length: 0\r\n\r\n"
    hop2 = [op_new("POST", "1.1", "http", "a.test", "/", [("content-length", "5")]), "proceed", "write_head #4096", "proceed",
            "write_body %s #100" % hx(b"hello"), "proceed", "raw_try_response %s" % hx(REDIR), "proceed", "as_new_flow never", "follow"]
    variants += [
        # an HTTP/1.0 request frames its body chunked as well when no length is given
        [op_new("POST", "1.0", "http", "a.test", "/", [])],
        # the body of a redirected request (second hop) that is sent on request: chunked, whatever the previous hop's length was
        hop2 + ["despite"],
        # the request head written in segments, the last one leaving no room / one byte after the last header line
        # (lines: 17 + 14 + 28 bytes, then the empty line)
        [op_new("POST", "1.1", "http", "a.test", "/", []), "proceed", "write_head #17", "write_head #14", "write_head #28", "write_head #29"],
        [op_new("POST", "1.1", "http", "a.test", "/", []), "proceed", "write_head #31", "write_head #29", "write_head #28"],
    ]
    picks = sorted(boundaries() | {1, 2, 100, 5000, 10248, 20496 + 9})
    for v in variants:
        ops = v + (["proceed"] if "proceed" not in v[-5:] or v[-1] in ("despite",) else []) + ["write_head #4096", "proceed", "q_is_chunked"]
        for n in picks:
            ops.append("q_max_input %s" % num(n))
            if calc_max_input(n) > 0:
                ops.append("write_sum z%d %s" % (calc_max_input(n), num(n)))
            if n > 0:
                ops.append("write_sum z%d %s" % (n, num(n)))
        scripts.append({"ops": ops + END_SMALL, "meta": {"kind": "chunked", "ns": picks}})
    # every other route into a chunked SendBody (lib.send_context)
    for route in ["added", "despite-added", "host", "expect-continued", "expect-giveup", "expect-partial", "http10", "default-despite", "hop2"]:
        ops = send_context(rng, "chunked", route)[0] + ["q_is_chunked"]
        for n in picks:
            ops.append("q_max_input %s" % num(n))
            if calc_max_input(n) > 0:
                ops.append("write_sum z%d %s" % (calc_max_input(n), num(n)))
            if n > 0:
                ops.append("write_sum z%d %s" % (n, num(n)))
        scripts.append({"ops": ops + END_SMALL, "meta": {"kind": "chunked", "ns": picks}})
    # sized bodies (the last two: a redirected request given a body and a new length on request; a head written in segments that
    # end right after the last header line -- lines 17 + 14 + 23 bytes)
    sized_starts = [([op_new("POST", "1.1", "http", "a.test", "/", [("content-length", str(t))]), "proceed", "write_head #4096", "proceed", "q_is_chunked"], t)
                    for t in [0, 1, 5, 1000, 70000]]
    sized_starts.append((hop2 + ["despite", "header %s %s" % (hx(b"content-length"), hx(b"70000")), "proceed", "write_head #4096", "proceed", "q_is_chunked"], 70000))
    sized_starts.append(([op_new("POST", "1.1", "http", "a.test", "/", [("content-length", "70000")]), "proceed", "write_head #17", "write_head #14", "write_head #23",
                          "write_head #24", "write_head #4096", "proceed", "q_is_chunked"], 70000))
    for start, n_total in sized_starts:
        ops = list(start)
        left = n_total
        for n in [0, 1, 2, 3, 100, 999, 1000, 1001, 20000]:
            ops.append("q_max_input %s" % num(n))
            k = min(n, left)
            ops.append("write_sum z%d %s" % (k, num(n)))
            left -= k
        scripts.append({"ops": ops, "meta": {"kind": "sized", "total": n_total}})
    return scripts


# where the advertised maximum is 0 (output lengths 0..4 cannot even hold the terminator) the advertised input is the empty one, i.e. the
# finishing write: it must "fit" like any other advertised input -- accepted, nothing or the whole terminator produced (seeded change C18-15)
END_SMALL = ["q_max_input #0", "write_body x #0", "q_max_input #1", "write_body x #1", "q_max_input #4", "write_body x #4", "q_max_input #5", "write_body x #5"]


def calc_max_input(n):
    """Independent transcription of the documented closed form (test_calculate_max_input's formula)."""
    chunks, rem = divmod(n, 10248)
    return chunks * 10240 + (0 if rem <= 8 else rem - 8)


def stats():
    return _stats


def oracle(script, obs):
    fails = []
    ops = script["ops"]
    last_adv = None
    last_n = None
    adv = None
    for i, op in enumerate(ops):
        if i >= len(obs):
            break
        o = obs[i]
        p = op.split(" ")
        if o == "panic":
            fails.append("op %d: panic" % i)
            break
        if p[0] == "q_is_chunked" and o in ("true", "false"):
            if (o == "true") != (script["meta"]["kind"] == "chunked"):
                fails.append("body reported as %s, the request is sent %s" % ("chunked" if o == "true" else "length-delimited", script["meta"]["kind"]))
                break
        if p[0] == "q_max_input":
            n = unnum(p[1])
            adv = unnum(o)
            if adv > n:
                fails.append("advertised %d exceeds output length %d" % (adv, n))
                break
            if script["meta"]["kind"] == "sized" and adv != n:
                fails.append("sized body: advertised %d for output length %d" % (adv, n))
                break
            if script["meta"]["kind"] == "chunked":
                if last_n is not None and n >= last_n and adv < last_adv:
                    fails.append("advertised maximum decreases: %d -> %d for n %d -> %d" % (last_adv, adv, last_n, n))
                    break
                last_adv, last_n = adv, n
        elif p[0] == "write_body" and p[1] == "x":
            if not o.startswith("ok "):
                fails.append("op %d: the advertised (empty) input written into %s bytes of output is refused: %s" % (i, p[2], o))
                break
            ci, co, _ = parse_counts(o)
            if ci != 0 or co > unnum(p[2]) or co not in (0, 5):
                fails.append("op %d: finishing write into %s bytes: consumed %d produced %d" % (i, p[2], ci, co))
                break
        elif p[0] == "write_sum":
            if not o.startswith("ok "):
                fails.append("op %d: write failed: %s" % (i, o))
                break
            ci, co, _ = parse_counts(o)
            offered = len(unhex(p[1]))
            cap = unnum(p[2])
            if script["meta"]["kind"] == "chunked" and offered == cap and adv is not None and cap == last_n:
                # n bytes were offered into n bytes of output: no write can consume more; an advertisement above that cannot be kept
                # (offering more never reduces what is consumed: C19)
                if adv > ci:
                    fails.append("n=%d: advertised maximum %d, but a single write into %d bytes consumes at most %d" % (cap, adv, cap, ci))
                    break
            elif script["meta"]["kind"] == "chunked":
                # the script offers the value the *formula* advertises; the implementation's own
                # advertisement must not promise more than what a write consumes
                if adv is not None and offered == adv and ci != adv:
                    fails.append("n=%d: advertised maximum %d not consumed completely by one write (consumed %d)" % (cap, adv, ci))
                    break
                if adv is not None and offered != adv:
                    # implementation advertises something else than the documented formula: check the promise
                    # against what was consumed of the offered amount
                    if adv > offered and ci < offered:
                        fails.append("n=%d: advertised %d but only %d of %d offered bytes consumed" % (cap, adv, ci, offered))
                        break
                    if adv <= offered and ci < adv:
                        fails.append("n=%d: advertised %d, offered %d, consumed only %d" % (cap, adv, offered, ci))
                        break
            else:
                if ci != offered:
                    fails.append("sized: %d of %d offered bytes consumed" % (ci, offered))
                    break
            if co > cap:
                fails.append("op %d: produced %d > output length %d" % (i, co, cap))
                break
    return fails


def nontrivial(script, obs):
    return any(op.startswith("write_sum") and o.startswith("ok ") and parse_counts(o)[0] > 0 for op, o in zip(script["ops"], obs))
