"""Redirect chains shared by C13, C14 and C16: generator, independent RFC 3986 resolver, head parser."""
from .lib import *

HOSTS = ["a.test", "b.test", "c.example.test"]
PORTS = ["", "", ":80", ":8080", ":443", ":8443"]
REDIRECT_STATUSES = [301, 302, 303, 307, 308, 300]


# ------------------------------------------------------------------ independent RFC 3986 resolution (oracle side)

def split_ref(ref):
    """RFC 3986 appendix B, fragment dropped. Returns (scheme, authority, path, query) with None for undefined."""
    if b"#" in ref:
        ref = ref[:ref.index(b"#")]
    scheme = None
    m = re.match(rb"^([A-Za-z][A-Za-z0-9+.\-]*):", ref)
    if m:
        scheme = m.group(1)
        ref = ref[m.end():]
    authority = None
    if ref.startswith(b"//"):
        rest = ref[2:]
        end = len(rest)
        for ch in (b"/", b"?"):
            if ch in rest:
                end = min(end, rest.index(ch))
        authority = rest[:end]
        ref = rest[end:]
    query = None
    if b"?" in ref:
        i = ref.index(b"?")
        query = ref[i + 1:]
        ref = ref[:i]
    return scheme, authority, ref, query


def remove_dot_segments(path):
    """RFC 3986 5.2.4, literally (string algorithm)."""
    inp = path
    out = b""
    while inp:
        if inp.startswith(b"../"):
            inp = inp[3:]
        elif inp.startswith(b"./"):
            inp = inp[2:]
        elif inp.startswith(b"/./"):
            inp = inp[2:]
        elif inp == b"/.":
            inp = b"/"
        elif inp.startswith(b"/../"):
            inp = inp[3:]
            out = out[:out.rindex(b"/")] if b"/" in out else b""
        elif inp == b"/..":
            inp = b"/"
            out = out[:out.rindex(b"/")] if b"/" in out else b""
        elif inp in (b".", b".."):
            inp = b""
        else:
            i = inp.find(b"/", 1)
            if i < 0:
                seg, inp = inp, b""
            else:
                seg, inp = inp[:i], inp[i:]
            out += seg
    return out


def normalise_authority(scheme, authority):
    host = authority
    port = None
    if b":" in authority:
        host, p = authority.rsplit(b":", 1)
        if p == b"":
            port = None
        else:
            port = int(p)
    host = host.lower()
    default = {b"http": 80, b"https": 443}.get(scheme)
    if port is None or port == default:
        return host
    return host + b":" + str(port).encode()


def resolve(base, ref):
    """base = (scheme, authority, path, query) already normalised; returns the same shape."""
    bs, ba, bp, bq = base
    rs, ra, rp, rq = split_ref(ref)
    if rs is not None:
        ts, ta, tp, tq = rs.lower(), ra if ra is not None else b"", remove_dot_segments(rp), rq
    elif ra is not None:
        ts, ta, tp, tq = bs, ra, remove_dot_segments(rp), rq
    else:
        ts, ta = bs, ba
        if rp == b"":
            tp = bp
            tq = rq if rq is not None else bq
        else:
            if rp.startswith(b"/"):
                tp = remove_dot_segments(rp)
            else:
                merged = (b"/" + rp) if bp == b"" else bp[:bp.rindex(b"/") + 1] + rp
                tp = remove_dot_segments(merged)
            tq = rq
    ta = normalise_authority(ts, ta)
    if tp == b"":
        tp = b"/"
    return (ts, ta, tp, tq)


def uri_text(u):
    s, a, p, q = u
    return s + b"://" + a + p + ((b"?" + q) if q is not None else b"")


def pq_of(u):
    return u[2] + ((b"?" + u[3]) if u[3] is not None else b"")


def host_of(u):
    return u[1].split(b":")[0]


# ------------------------------------------------------------------ generator

def gen_location(rng, cur):
    """A Location value from the grammar of C14 (RFC 3986 and WHATWG agree on it)."""
    r = rng.random()
    seg = lambda: rng.choice([b"a", b"b", b"dir", b"x.y", b"p1", b"~u", b"a-b_c"])
    path = lambda: b"/" + b"/".join(seg() for _ in range(rng.randrange(0, 4)))
    query = lambda: rng.choice([b"", b"", b"?q=1", b"?a=b&c=d", b"?"])
    frag = lambda: rng.choice([b"", b"", b"", b"#frag", b"#"])
    if r < 0.3:
        scheme = rng.choice([b"http", b"https", b"http", b"HTTP", b"Https"])
        host = rng.choice(HOSTS).encode()
        if rng.random() < 0.2:
            host = host.upper()
        return scheme + b"://" + host + rng.choice(PORTS).encode() + rng.choice([path(), path(), b""]) + query() + frag()
    if r < 0.4:
        return b"//" + rng.choice(HOSTS).encode() + rng.choice(PORTS).encode() + path() + query() + frag()
    if r < 0.6:
        return path() + query() + frag()
    if r < 0.85:
        parts = [rng.choice([b"..", b".", b"..", seg(), seg()]) for _ in range(rng.randrange(1, 5))]
        tail = rng.choice([b"", b"/", b""])
        return b"/".join(parts) + tail + query() + frag()
    if r < 0.92:
        return rng.choice([b"?x=y", b"?", b"?a=1&b=2"]) + frag()
    if r < 0.96:
        return rng.choice([b"", b"#f"])
    return b"/" + b"/".join([b"..", seg(), b".", b"..", b"..", seg()]) + query()


MALFORMED = [b"http://", b"http://:80/x", b"http://a.test:99999/", b"http://a b/", b"https://[::1", b"http://a.test:x/"]


NONTEXT = [b"/caf\xff/page", b"/p\xe9", b"http://b.test/x\x80y", b"?q=\xfe", b"../\xc3\x28"]


def gen_chain(rng, hops=None, with_explicit_host=None, add_at_hops=True, malformed_prob=0.0, body_resp_prob=0.3, readd_original=False):
    """Returns (ops, meta). meta records everything the oracles need."""
    hops = hops if hops is not None else rng.randrange(1, 5)
    scheme = rng.choice(["http", "http", "https"])
    host = rng.choice(HOSTS)
    if rng.random() < 0.1:
        host = host.upper()
    port = rng.choice(PORTS)
    pq = rng.choice(["/", "/start", "/d1/d2/page?x=1", "/d1/", ""])
    method = rng.choice(["GET", "GET", "HEAD", "POST", "PUT", "DELETE", "OPTIONS", "PATCH"])
    orig_headers = []
    secrets = {}
    if rng.random() < 0.8:
        orig_headers.append((b"authorization", b"orig-auth"))
    if rng.random() < 0.7:
        orig_headers.append((b"cookie", b"orig-cookie=1"))
        if rng.random() < 0.3:
            orig_headers.append((b"cookie", b"orig-cookie=2"))
    orig_headers.append((b"x-keep", b"orig-keep"))
    explicit_host = with_explicit_host if with_explicit_host is not None else (rng.random() < 0.1)
    if explicit_host:
        orig_headers.append((b"host", b"orig-host.test"))
    body_len = None
    if method in BODY_METHODS and rng.random() < 0.6:
        body_len = rng.choice([0, 3, 10])
        orig_headers.append((b"content-length", str(body_len).encode()))
    # Expect: 100-continue on the original request (inherited by every hop like any other original header): a hop that sends a body
    # passes through Await100, where the caller gives up waiting, is told to go on, or is refused by the redirect itself
    expect = rng.random() < 0.15
    if expect:
        orig_headers.append((b"expect", b"100-continue"))
    rng.shuffle(orig_headers)
    orig_headers = group_headers(orig_headers)
    policy = rng.choice(["never", "same_host", "same_host"])
    ops = ["new " + request_args(method, "1.1", scheme, host + port, pq, orig_headers)]
    base = (scheme.encode(), normalise_authority(scheme.encode(), (host + port).encode()), (pq.split("?")[0] or "/").encode(),
            (pq.split("?", 1)[1].encode() if "?" in pq else None))
    cur = base
    cur_method = method
    hop_meta = []
    first_host_cased = host  # the original URI keeps its case in http::Uri
    stopped = None
    for h in range(hops + 1):
        # --- prepare: optional additions
        added = []
        if add_at_hops and rng.random() < 0.6:
            names = [b"cookie", b"authorization", b"x-new", b"connection", b"accept", b"x-new"]
            for _ in range(rng.randrange(1, 4)):
                nm = rng.choice(names)
                added.append((nm, b"added-h%d-%d" % (h, len(added))))
            if not explicit_host and rng.random() < 0.15:
                added.append((b"host", b"added-host-h%d.test" % h))
            if readd_original and rng.random() < 0.4:
                # the caller re-attaches a header the original request carried, with the identical value
                cands = [(k, v) for k, v in orig_headers if k in (b"cookie", b"authorization", b"x-keep")]
                if cands:
                    added.insert(rng.randrange(0, len(added) + 1), rng.choice(cands))
        # a body-less method may be given a body on request, on the first request or on a redirected one (send_body_despite_method);
        # the call is made before, between or after the additions
        despite_here = cur_method not in BODY_METHODS and rng.random() < 0.15
        despite_at = rng.randrange(0, len(added) + 1) if despite_here else None
        for i, (k, v) in enumerate(added):
            if despite_at == i:
                ops.append("despite")
            ops.append("header %s %s" % (hx(k), hx(v)))
        if despite_at == len(added):
            ops.append("despite")
        ops += ["q_uri", "q_method", "proceed", "write_head #100000"]
        head_idx = len(ops) - 1
        hop_meta.append({"hop": h, "added": [[k.hex(), v.hex()] for k, v in added], "head_idx": head_idx, "quri_idx": head_idx - 3, "despite": despite_here,
                         "qmethod_idx": head_idx - 2, "uri": [x.hex() if x is not None else None for x in cur], "method": cur_method})
        if h == hops:
            break
        ops.append("proceed")
        refused_in_await = False
        if expect and (despite_here or cur_method in BODY_METHODS):
            how = rng.choice(["giveup", "continue", "refused"])
            if how == "continue":
                ops.append("raw_try100 %s" % hx(b"HTTP/1.1 100 Continue\r\n\r\n"))
            elif how == "refused":
                refused_in_await = True       # the redirect response (built below) is offered while awaiting: a refusal, the body is not sent
            if not refused_in_await:
                ops.append("proceed")
        # --- send the body if one is due
        if refused_in_await:
            pass
        elif despite_here:
            ops += ["write_body %s #100" % hx(b"hi"), "write_body x #100", "proceed"]      # default framing: chunked
        elif cur_method in BODY_METHODS:
            if h == 0 and body_len is not None:
                ops.append("write_body z%d #100000" % body_len if body_len > 0 else "write_body x #0")
            else:
                ops.append("write_body x #100")
            ops.append("proceed")
        # --- the redirect response
        status = rng.choice(REDIRECT_STATUSES)
        malformed = rng.random() < malformed_prob
        if malformed:
            # unresolvable, or not text (a byte >= 0x80 / DEL anywhere, also in the path or query)
            loc = rng.choice(MALFORMED + NONTEXT)
        else:
            loc = gen_location(rng, cur)
        fields = []
        n_loc = 1
        noloc = (not malformed) and rng.random() < 0.04
        if noloc:
            # a 3xx without any Location field: following it is an error (whatever an interim response before it carried)
            malformed = True
            n_loc = 0
        else:
            if rng.random() < 0.15:
                fields.append((b"Location", gen_location(rng, cur)))  # an earlier Location field: the last one wins
                n_loc = 2
            fields.append((b"Location", loc))
        with_body = rng.random() < body_resp_prob and cur_method != "HEAD"
        fields.append((b"Content-Length", b"3" if with_body else b"0"))
        if rng.random() < 0.2:
            fields.insert(0, (b"Set-Cookie", b"s=1"))
        resp = render_response_head("1.1", status, b"Moved", fields)
        if refused_in_await:
            ops += ["raw_try100 %s" % hx(resp), "proceed"]
        if noloc or rng.random() < 0.12:
            # an interim 1xx response first (with fields of its own, among them a Location): the caller asks again on the same flow
            ops += ["raw_try_response %s" % hx(rng.choice(INTERIM_HEADS[:3]))]
        ops += ["raw_try_response %s" % hx(resp), "proceed"]
        if with_body:
            ops += ["raw_read %s #100" % hx(b"abc"), "proceed"]
        ops += ["as_new_flow %s" % policy]
        anf_idx = len(ops) - 1
        hop_meta[-1].update({"status": status, "location": loc.hex(), "anf_idx": anf_idx, "malformed": malformed, "n_loc": n_loc})
        # expectation
        followed = True
        if status in (307, 308) and cur_method in ("POST", "PUT", "PATCH", "DELETE"):
            followed = False
        if malformed or not followed:
            stopped = h
            hop_meta[-1]["followed"] = False
            ops += ["q_must_close", "proceed", "q_must_close"]
            break
        hop_meta[-1]["followed"] = True
        ops.append("follow")
        cur = resolve(cur, loc)
        if status not in (307, 308) and cur_method not in ("GET", "HEAD"):
            cur_method = "GET"
    meta = {"scheme": scheme, "host": host, "port": port, "policy": policy, "orig_headers": [[k.hex(), v.hex()] for k, v in orig_headers],
            "explicit_host": explicit_host, "hops": hop_meta, "stopped": stopped, "method": method, "expect": expect}
    return ops, meta


def parse_head(data):
    """Parses an emitted request head: (request line parts, [(name, value)])."""
    assert data.endswith(b"\r\n\r\n"), data[-10:]
    lines = data[:-4].split(b"\r\n")
    rl = lines[0].split(b" ")
    hs = []
    for l in lines[1:]:
        k, v = l.split(b": ", 1)
        hs.append((k, v))
    return rl, hs
