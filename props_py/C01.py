"""C01 -- Exchange outcome is independent of I/O segmentation and buffer sizes."""
from .lib import *

RULE = ("each script = one generated exchange sequence (request configuration: method x version x framing {none, Content-Length, "
        "chunked (default or explicit)} x Expect x send-body-despite-method; body payload 0..3000 bytes; server stream of 1..3 "
        "back-to-back well-formed responses: any status incl. 1xx/204/304/3xx, Content-Length / chunked (extensions, trailers) / "
        "close-delimited bodies, optional interim 100 for Expect requests) executed under one canonical schedule (everything at "
        "once, large buffers) and K random schedules (K = 5 quick / 12 thorough): head capacities from {0, 1, 6, shortest line, "
        "random, huge}; Await100: look at none / some / every prefix of the interim response, give up early or after it arrived; "
        "body: (take, cap) pairs incl. cap 0..12 and cap < one chunk, explicit slices with generous buffers, direct flush; response: "
        "1-byte, random and all-at-once arrivals with try_response after each (cuts after a complete Location line of a 3xx head "
        "excluded: C05/F10); body reads with caps {0,1,2,3,7,large}, boundary stop toggled; read-only queries interleaved anywhere. "
        "Oracle (implementation only, metamorphic): every schedule yields the same request head bytes, request payload, response "
        "head, response body, terminal state, must-close verdict and reason, and the server bytes consumed equal the length of the "
        "response messages of the exchange (next exchange starts at the next response). non-trivial = all schedules ran to the "
        "terminal state; distinct = distinct op lists. A tenth of the scripts take the request of a second hop (made by as_new_flow) as the fixed "
        "request and compare its head bytes across output segmentations")
TRUSTED_BASE = COMMON_TRUSTED_BASE
ASSUMPTIONS = ["the caller re-presents unconsumed bytes (window discipline, part of the script semantics)",
               "causality: the final response arrives only after the request is complete; an interim 100 may arrive once the head is out",
               "schedules that stop inside a 3xx head after a complete Location line are owned by C05 (known finding F10)"]
_stats = {"configs": {}, "framing": {}, "statuses": {}, "exchanges": 0, "runs": 0, "with100": 0}

CAPS_READ = [0, 1, 2, 3, 7, 100000]


def payload(n, seed):
    b = bytearray(((seed + i * 13) & 0xFF) for i in range(n))
    for j in range(0, n, 7):
        if (seed + j) % 3 == 0:
            b[j] = [13, 10, 48, 59][(seed + j) % 4]
    return bytes(b)


def gen_request(rng):
    r = rng.random()
    despite = False
    if r < 0.45:
        method = rng.choice(["POST", "PUT", "PATCH"])
    elif r < 0.9:
        method = rng.choice(["GET", "GET", "HEAD", "DELETE", "OPTIONS"])
    else:
        method = rng.choice(["GET", "DELETE"])
        despite = True
    version = "1.1"
    if method in ("GET", "HEAD", "POST") and rng.random() < 0.25:
        version = "1.0"
    has_body = method in ("POST", "PUT", "PATCH") or despite
    headers = []
    framing = "none"
    body = b""
    if has_body:
        n = rng.choice([0, 1, 2, 5, 17, 300]) if rng.random() < 0.8 else rng.randrange(300, 3000)
        body = payload(n, rng.randrange(256))
        fr = rng.random()
        if fr < 0.45:
            framing = "length"
            headers.append(("content-length", str(n)))
        elif fr < 0.6:
            framing = "chunked"
            headers.append(("transfer-encoding", "chunked"))
        else:
            framing = "chunked"   # default
    expect = has_body and rng.random() < 0.35
    if expect:
        headers.append(("expect", "100-continue"))
    if rng.random() < 0.15:
        headers.append(("connection", rng.choice(["close", "keep-alive"])))
    if rng.random() < 0.4:
        headers.append(("x-trace", "abc"))
    if rng.random() < 0.2:
        headers.append(("accept", "*/*"))
    return {"method": method, "version": version, "despite": despite, "headers": headers, "framing": framing, "body": body,
            "expect": expect, "has_body": has_body, "pq": rng.choice(["/", "/a/b?c=d", "/x"])}


def gen_response(rng, method, last, allow_close):
    """Returns dict with head bytes, body bytes on the wire, decoded body, and what the rules say."""
    status = rng.choice([200, 200, 200, 201, 204, 304, 301, 302, 307, 404, 500, 101, 199, 299, 400, 999])
    rver = rng.choice(["1.1", "1.1", "1.0"])
    fields = []
    for _ in range(rng.randrange(0, 4)):
        fields.append((rng.choice(NAMES), gen_field_value(rng)))
    sconn = None
    if rng.random() < 0.15:
        sconn = rng.choice([b"close", b"keep-alive", b"Close"])
        fields.append((b"Connection", sconn))
    nobody = method == "HEAD" or status < 200 or status in (204, 304)
    is3xx = 300 <= status <= 399 and status != 304
    wire = b""
    decoded = b""
    mode = "none"
    if is3xx and rng.random() < 0.8:
        fields.append((b"Location", rng.choice([b"/next", b"http://b.test/y", b"../z?q"])))
    if nobody:
        if rng.random() < 0.3:
            fields.append((b"Content-Length", b"%d" % rng.choice([0, 5, 1000])))
    else:
        k = rng.random()
        if k < 0.45:
            n = rng.choice([0, 1, 5, 64, 700])
            decoded = payload(n, rng.randrange(256))
            wire = decoded
            fields.append((b"Content-Length", b"%d" % n))
            mode = "length" if n > 0 else "none"
        elif k < 0.8 and rver == "1.1":
            sizes = [rng.choice([1, 2, 3, 15, 16, 255, 256, 700]) for _ in range(rng.randrange(0, 4))]
            datas = [payload(s, rng.randrange(256)) for s in sizes]
            decoded = b"".join(datas)
            wire = enc_chunked(datas, ext=rng.choice([b"", b"", b";a=b", b" "]), trailers=rng.choice([(), (), (b"X-T: v",), (b"A: b", b"C: d")]),
                               upper=rng.random() < 0.3, lead_zeros=rng.choice([0, 0, 1, 3]))
            fields.append((b"Transfer-Encoding", rng.choice([b"chunked", b"Chunked", b"gzip, chunked"])))
            if rng.random() < 0.2:
                fields.append((b"Content-Length", b"3"))   # chunked takes precedence
            mode = "chunked"
        elif is3xx:
            mode = "none"    # redirect without framing header: no body
        elif last and allow_close:
            decoded = payload(rng.choice([0, 1, 40, 500]), rng.randrange(256))
            wire = decoded
            mode = "close"
        else:
            fields.append((b"Content-Length", b"0"))
            mode = "none"
    rng.shuffle(fields)
    reason = rng.choice([b"OK", b"", None, b"Some Reason", b"caf\xe9"])
    head = b"HTTP/" + rver.encode() + b" " + (b"%03d" % status) + ((b" " + reason) if reason is not None else b"") + b"\r\n"
    loc_end = None
    for kf, vf in fields:
        head += kf + b":" + rng.choice([b" ", b"", b"\t "]) + vf + rng.choice([b"", b"", b" "]) + b"\r\n"
        if kf.lower() == b"location" and is3xx:
            loc_end = len(head)
    head += b"\r\n"
    closes = (sconn is not None and sconn.lower() == b"close") or mode == "close"
    return {"head": head, "wire": wire, "decoded": decoded, "mode": mode, "status": status, "is3xx": is3xx,
            "loc_end": loc_end, "server_close": closes, "nchunks": wire.count(b"\r\n") if mode == "chunked" else 0}


def gen_exchanges(rng):
    """1..3 exchanges on one connection; later ones only while the connection stays reusable."""
    n = rng.choice([1, 1, 2, 3])
    exs = []
    for i in range(n):
        rq = gen_request(rng)
        last = (i == n - 1)
        rs = gen_response(rng, rq["method"], last, allow_close=True)
        hundred = b""
        if rq["expect"] and rng.random() < 0.7:
            hundred = rng.choice([b"HTTP/1.1 100 Continue\r\n\r\n", b"HTTP/1.1 100\r\n\r\n", b"HTTP/1.0 100 Go on then\r\n\r\n"])
        exs.append({"rq": rq, "rs": rs, "hundred": hundred})
        client_close = rq["version"] == "1.0" or any(k == "connection" and v == "close" for k, v in rq["headers"])
        if client_close or rs["server_close"]:
            break
    return exs


def queries(rng, state, p=0.25):
    out = []
    if rng.random() < p:
        if state in ("SendRequest", "SendBody", "RecvResponse", "RecvBody"):
            out.append("q_can_proceed")
    if rng.random() < p / 2:
        if state == "SendBody":
            out.append(rng.choice(["q_is_chunked", "q_max_input %s" % num(rng.choice([0, 5, 6, 100, 20000]))]))
        elif state == "RecvBody":
            out.append(rng.choice(["q_boundary", "q_body_mode"]))
        elif state == "Await100":
            out.append("q_keep_await")
    return out


def arrivals(rng, upto_rel, style):
    """increments summing to upto_rel."""
    if upto_rel <= 0:
        return []
    if style == "all":
        return [upto_rel]
    if style == "one":
        return [1] * upto_rel
    cuts = sorted(set(rng.randrange(1, upto_rel + 1) for _ in range(rng.randrange(1, 6))) | {upto_rel})
    out = []
    pos = 0
    for c in cuts:
        out.append(c - pos)
        pos = c
    return out


def run_ops(exs, rng, canonical, force=None):
    """ops of one schedule over the whole connection (stream already set)."""
    ops = []
    arrived = 0        # absolute arrival position in the stream
    base = 0           # start of this exchange's responses
    for ex in exs:
        rq, rs, hundred = ex["rq"], ex["rs"], ex["hundred"]
        ops.append(op_new(rq["method"], rq["version"], "http", "a.test", rq["pq"], rq["headers"]))
        if rq["despite"]:
            ops.append("despite")
        if rq["body"] is not None:
            ops.append("body %s" % hx(rq["body"]))
        ops.append("proceed")
        # ---- head
        if canonical:
            ops.append("write_head #100000")
        else:
            style = rng.random()
            for _ in range(rng.randrange(0, 8)):
                if style < 0.3:
                    cap = rng.choice([0, 1, 6, 17, 18, 19, 25, 30])
                elif style < 0.7:
                    cap = rng.randrange(0, 80)
                else:
                    cap = rng.choice([40, 64, 200, 100000])
                ops.append("write_head %s" % num(cap))
                ops += queries(rng, "SendRequest")
            ops.append("write_head #100000")
            ops += queries(rng, "SendRequest")
        ops.append("proceed")
        consumed100 = False
        h_end = base + len(hundred)
        # ---- await 100
        if rq["expect"] and rq["has_body"]:
            if canonical:
                if hundred:
                    ops += ["arrive %s" % num(len(hundred)), "try100"]
                    arrived = h_end
                    consumed100 = True
            else:
                if hundred:
                    mode = rng.choice(["none", "prefixes", "all", "giveup-early"])
                    if force and force.get("await"):
                        mode = force["await"]
                    if mode == "all":
                        ops += ["arrive %s" % num(len(hundred)), "try100"]
                        arrived = h_end
                        consumed100 = True
                    elif mode == "prefixes":
                        for inc in arrivals(rng, len(hundred), rng.choice(["one", "rand"])):
                            ops.append("arrive %s" % num(inc))
                            arrived += inc
                            if rng.random() < 0.7 or arrived == h_end:
                                ops.append("try100")
                                ops += queries(rng, "Await100", 0.5)
                                if arrived == h_end:
                                    consumed100 = True
                    elif mode == "giveup-early":
                        k = rng.randrange(0, len(hundred))
                        if k:
                            ops.append("arrive %s" % num(k))
                            arrived += k
                        if rng.random() < 0.7:
                            ops.append("try100")
                else:
                    if rng.random() < 0.5:
                        ops.append("try100")
            ops.append("proceed")
        # ---- body
        if rq["has_body"]:
            n = len(rq["body"])
            if canonical:
                if n:
                    ops.append("write_from %s #100000" % num(n))
            else:
                style = rng.random()
                for _ in range(rng.randrange(0, 10)):
                    if style < 0.35:
                        take, cap = rng.choice([1, 2, 5, 100, n + 1]), rng.randrange(0, 13)
                    elif style < 0.7:
                        take = rng.choice([1, 3, 16, 255, 256, n + 1])
                        cap = rng.choice([take, take + 5, take + 6, take + 7, take + 8, 100000])
                    else:
                        take, cap = rng.randrange(1, n + 2), rng.randrange(0, 2 * n + 20)
                    ops.append("write_from %s %s" % (num(take), num(cap)))
                    ops += queries(rng, "SendBody")
                if n:
                    ops.append("write_from %s #100000" % num(n))
            # finishing write (small buffers may not take the terminator), then one that must
            if not canonical and rng.random() < 0.5:
                ops.append("write_from #0 %s" % num(rng.choice([0, 3, 4, 5])))
                ops += queries(rng, "SendBody", 0.5)
            ops.append("write_from #0 #100")
            ops += queries(rng, "SendBody", 0.3 if not canonical else 0)
            ops.append("proceed")
        # ---- response head (a late 100 is skipped on the way)
        head_end = h_end + len(rs["head"])
        style = "all" if canonical else rng.choice(["all", "one", "rand", "rand"])
        if force and force.get("head_style") and not canonical:
            style = force["head_style"]
        targets = []
        if not consumed100 and hundred and arrived < h_end and not canonical and rng.random() < 0.5:
            targets.append(h_end)     # let the late 100 complete on its own first
        targets.append(head_end)
        for tgt in targets:
            for inc in arrivals(rng, tgt - arrived, style):
                arrived += inc
                ops.append("arrive %s" % num(inc))
                # F10: no look at a 3xx head between the end of its Location line and its end
                if rs["is3xx"] and rs["loc_end"] is not None and h_end + rs["loc_end"] <= arrived < head_end:
                    continue
                if arrived == tgt or rng.random() < 0.8:
                    ops.append("try_response")
                    ops += queries(rng, "RecvResponse", 0.2 if not canonical else 0)
        if not consumed100 and hundred and (canonical or len(targets) == 1):
            # the call that saw the complete late 100 together with the complete head consumed only the 100
            ops.append("try_response")
        elif not consumed100 and hundred:
            pass
        ops.append("proceed")
        # ---- response body
        msg_end = head_end + len(rs["wire"])
        if rs["mode"] in ("length", "chunked", "close"):
            if not canonical and rng.random() < 0.4:
                ops.append("stop #1")
            for inc in arrivals(rng, msg_end - arrived, "all" if canonical else rng.choice(["all", "one", "rand", "rand"]) if len(rs["wire"]) < 400 else rng.choice(["all", "rand"])):
                arrived += inc
                ops.append("arrive %s" % num(inc))
                if canonical:
                    continue
                for _ in range(rng.choice([0, 1, 1, 2])):
                    ops.append("read %s" % num(rng.choice(CAPS_READ)))
                    ops += queries(rng, "RecvBody")
                if rng.random() < 0.1:
                    ops.append("stop %s" % num(rng.choice([0, 1])))
            # drain: with boundary stop a read returns at most one chunk
            for _ in range(rs["nchunks"] + 4):
                ops.append("read #100000")
            ops += queries(rng, "RecvBody", 0.5 if not canonical else 0)
            ops.append("proceed")
        # ---- terminal
        ops += ["q_must_close", "q_close_reason"]
        if rs["is3xx"]:
            ops += ["q_status", "proceed", "q_must_close", "q_close_reason"]
        base = msg_end
        arrived = max(arrived, base)
    return ops


def short_head_exchange(rng, i):
    """An Expect request whose interim 100 arrives late (the caller gave up waiting, or saw only a part of it), answered by a final
    head WITHOUT header fields (16..19 bytes: shorter than the interim head): state kept by try_response across the interim head
    must not leak into the parse of the final one (seeded change C01-15)."""
    n = rng.choice([1, 5, 17])
    body = payload(n, rng.randrange(256))
    framing = rng.choice(["length", "chunked"])
    headers = ([("content-length", str(n))] if framing == "length" else []) + [("expect", "100-continue")]
    rq = {"method": "POST", "version": "1.1", "despite": False, "headers": headers, "framing": framing, "body": body,
          "expect": True, "has_body": True, "pq": "/"}
    kind = i % 3
    if kind == 0:
        decoded = payload(rng.choice([0, 1, 40]), rng.randrange(256))
        rs = {"head": b"HTTP/1.1 200 OK\r\n\r\n", "wire": decoded, "decoded": decoded, "mode": "close", "status": 200}
    elif kind == 1:
        rs = {"head": b"HTTP/1.1 204\r\n\r\n", "wire": b"", "decoded": b"", "mode": "none", "status": 204}
    else:
        rs = {"head": b"HTTP/1.0 304 \r\n\r\n", "wire": b"", "decoded": b"", "mode": "none", "status": 304}
    rs.update({"is3xx": False, "loc_end": None, "server_close": rs["mode"] == "close", "nchunks": 0})
    hundred = [b"HTTP/1.1 100 Continue\r\n\r\n", b"HTTP/1.1 100\r\n\r\n", b"HTTP/1.0 100 Go on then\r\n\r\n"][(i // 3) % 3]
    return [{"rq": rq, "rs": rs, "hundred": hundred}]


def build(rng, tier, exs=None, force=None):
    exs = exs or gen_exchanges(rng)
    stream = b"".join(ex["hundred"] + ex["rs"]["head"] + ex["rs"]["wire"] for ex in exs)
    k = 12 if tier == "thorough" else 5
    ops = []
    run_starts = []
    for r in range(k + 1):
        run_starts.append(len(ops))
        ops.append("stream %s" % hx(stream))
        ops += run_ops(exs, rng, canonical=(r == 0), force=force)
    _stats["exchanges"] += len(exs)
    _stats["runs"] += k + 1
    for ex in exs:
        rq, rs = ex["rq"], ex["rs"]
        key = "%s/%s/%s%s%s" % (rq["method"], rq["version"], rq["framing"], "/expect" if rq["expect"] else "", "/despite" if rq["despite"] else "")
        _stats["configs"][key] = _stats["configs"].get(key, 0) + 1
        _stats["framing"][rs["mode"]] = _stats["framing"].get(rs["mode"], 0) + 1
        _stats["statuses"][str(rs["status"])] = _stats["statuses"].get(str(rs["status"]), 0) + 1
        if ex["hundred"]:
            _stats["with100"] += 1
    meta = {"run_starts": run_starts,
            "exchanges": [{"consumed": len(ex["hundred"]) + len(ex["rs"]["head"]) + len(ex["rs"]["wire"]), "resp_body": ex["rs"]["decoded"].hex(),
                           "status": ex["rs"]["status"], "req_body_len": len(ex["rq"]["body"]) if ex["rq"]["has_body"] else 0,
                           "has_body": ex["rq"]["has_body"], "framing": ex["rq"]["framing"], "mode": ex["rs"]["mode"],
                           "req_body": ex["rq"]["body"].hex()} for ex in exs]}
    return {"ops": ops, "meta": meta}


def build_redirected(rng, tier):
    """The request of a SECOND hop (made by as_new_flow from a request that carries headers which are not inherited -- cookie,
    authorization -- ahead of others) is a fixed request too: its head bytes must not depend on how the output is segmented."""
    hs = []
    pool = [(b"cookie", b"c=1"), (b"authorization", b"tok"), (b"accept", b"*/*"), (b"x-trace", b"t1"), (b"accept-language", b"en"), (b"cookie", b"d=2"), (b"user-agent", b"ua/1")]
    for _ in range(rng.randrange(2, 7)):
        hs.append(rng.choice(pool))
    rng.shuffle(hs)
    hs = group_headers(hs)
    method = rng.choice(["GET", "GET", "HEAD", "OPTIONS", "POST"])
    status = rng.choice([301, 302, 303, 307]) if method != "POST" else rng.choice([301, 302, 303])
    resp = render_response_head("1.1", status, b"Moved", [(b"Location", rng.choice([b"/next", b"http://b.test/n?x=1"])), (b"Content-Length", b"0")])
    prefix = ["new " + request_args(method, "1.1", "http", "a.test", "/start", hs), "proceed", "write_head #100000", "proceed"]
    if method == "POST":
        prefix += ["write_body x #100", "proceed"]
    prefix += ["raw_try_response %s" % hx(resp), "proceed", "as_new_flow %s" % rng.choice(["never", "same_host"]), "follow"]
    added = ["header %s %s" % (hx(b"x-new"), hx(b"n"))] if rng.random() < 0.4 else []
    ops = []
    k = 12 if tier == "thorough" else 6
    for r in range(k + 1):
        ops += ["stream x"] + prefix + added + ["proceed"]
        if r == 0:
            ops += ["write_head #100000"]
        else:
            style = rng.choice(["const", "const", "rand"])
            c = rng.randrange(18, 60)
            for _ in range(40):
                ops.append("write_head %s" % num(c if style == "const" else rng.choice([0, 1, 17, 18, 19, 20, 21, 22, 23, 24, 25, 30, 40, 64])))
            ops += ["write_head #100000"]
        ops += ["q_can_proceed", "write_head #100000"]
    _stats["redirected_heads"] = _stats.get("redirected_heads", 0) + 1
    return {"ops": ops, "meta": {"kind": "redirected-head"}}


def oracle_redirected(script, obs):
    ops = script["ops"]
    if "panic" in obs:
        return ["panic (op %d)" % obs.index("panic")]
    starts = [i for i, o in enumerate(ops) if o.startswith("stream ")] + [len(ops)]
    heads = []
    for r in range(len(starts) - 1):
        a, b = starts[r], starts[r + 1]
        f = next((i for i in range(a, b) if ops[i] == "follow"), None)
        if f is None or obs[f] != "ok":
            return []       # the redirect was not followed (not this property's business)
        out = b""
        done = None
        for i in range(f, b):
            if ops[i].startswith("write_head") and obs[i].startswith("ok "):
                out += parse_head_write(obs[i])[1]
            if ops[i] == "q_can_proceed":
                done = obs[i]
        heads.append((out, done))
    ref = heads[0]
    if ref[1] != "true":
        return ["redirected request: the head is not complete after a write into a large buffer"]
    for r, h in enumerate(heads[1:], 1):
        if h != ref:
            return ["schedule %d: the head of the redirected request differs from the one written in one piece (%d vs %d bytes, complete=%s): %r ..." % (
                r, len(h[0]), len(ref[0]), h[1], h[0][:80])]
    return []


def generate(rng, tier, mult):
    count = (400 if tier == "quick" else 2500) * mult
    short = [build(rng, tier, short_head_exchange(rng, i), {"await": ["giveup-early", "none", "giveup-early"][i % 3], "head_style": ["one", "one", "rand"][i % 3]})
             for i in range(27 if tier == "quick" else 90)]
    return short + [build(rng, tier) for _ in range(count)] + [build_redirected(rng, tier) for _ in range(count // 10)]


def stats():
    return _stats


def outcomes_of_run(ops, obs, exmeta):
    """Splits one run (from `stream` to the next `stream`) into exchanges and extracts each outcome."""
    res = []
    cur = None
    state = None
    for op, o in zip(ops, obs):
        p = op.split(" ")
        k = p[0]
        if o == "panic":
            return None, "panic at %s" % op[:60]
        if k == "new":
            if cur is not None:
                res.append(cur)
            cur = {"head": b"", "sent": 0, "body_out_len": 0, "body_sums": [], "resp": None, "resp_body": b"", "tags": [], "must_close": [],
                   "reason": [], "consumed": 0, "status_q": None, "body_chunks_ok": True, "finished_q": []}
            state = "Prepare"
            if o != "ok":
                return None, "new failed: %s" % o
            continue
        if cur is None:
            continue
        if k == "proceed":
            if o.startswith("state "):
                state = o.split(" ")[1]
                cur["tags"].append(state)
            elif o.startswith("err") or o == "np":
                return None, "proceed in %s: %s" % (state, o)
        elif k == "write_head":
            if o.startswith("ok "):
                cur["head"] += parse_head_write(o)[1]
            elif not o.startswith("err OutputOverflow"):
                return None, "write_head: %s" % o
        elif k == "write_from":
            if not o.startswith("ok "):
                return None, "write_from (%s) failed in %s: %s" % (op, state, o)
            used, produced, data = parse_counts(o)
            cur["sent"] += used
            cur["body_out_len"] += produced
            cur["body_sums"].append((used, produced, data.cs if isinstance(data, Summed) else None))
        elif k == "try100":
            if not o.startswith("ok "):
                return None, "try100: %s" % o
            cur["consumed"] += unnum(o.split(" ")[1])
        elif k == "try_response":
            if o.startswith("err") or o == "np":
                return None, "try_response in %s: %s" % (state, o)
            used, ver, status, hs = parse_response_obs(o)
            cur["consumed"] += used
            if status is not None:
                if cur["resp"] is not None:
                    return None, "two responses returned in one exchange"
                cur["resp"] = (ver, status, tuple(hs))
        elif k == "read":
            if not o.startswith("ok "):
                return None, "read: %s" % o
            i, n, data = parse_counts(o)
            cur["consumed"] += i
            cur["resp_body"] += data
        elif k == "q_must_close":
            cur["must_close"].append(o)
        elif k == "q_close_reason":
            cur["reason"].append(o)
        elif k == "q_status":
            cur["status_q"] = o
    if cur is not None:
        res.append(cur)
    return res, None


def oracle(script, obs):
    if script["meta"].get("kind") == "redirected-head":
        return oracle_redirected(script, obs)
    ops = script["ops"]
    meta = script["meta"]
    starts = [i for i, o in enumerate(ops) if o.startswith("stream ")] + [len(ops)]   # (robust under minimisation)
    if len(obs) < len(ops):
        if "panic" in obs:
            return ["panic (op %d: %s)" % (obs.index("panic"), ops[obs.index("panic")][:60])]
        return ["missing observations"]
    runs = []
    for r in range(len(starts) - 1):
        a, b = starts[r], starts[r + 1]
        out, why = outcomes_of_run(ops[a:b], obs[a:b], meta["exchanges"])
        if out is None:
            return ["schedule %d: %s" % (r, why)]
        runs.append(out)
    fails = []
    ref = runs[0]
    if len(ref) != len(meta["exchanges"]):
        return ["canonical schedule ran %d exchanges, expected %d" % (len(ref), len(meta["exchanges"]))]
    for ei, (e, m) in enumerate(zip(ref, meta["exchanges"])):
        if e["resp"] is None:
            return ["exchange %d: canonical schedule got no response" % ei]
        if e["consumed"] != m["consumed"]:
            return ["exchange %d: consumed %d server bytes, the response message(s) are %d bytes long" % (ei, e["consumed"], m["consumed"])]
        if e["resp_body"] != bytes.fromhex(m["resp_body"]):
            return ["exchange %d: response body differs from the payload sent by the server" % ei]
        if e["sent"] != m["req_body_len"]:
            return ["exchange %d: %d request body bytes consumed, body has %d" % (ei, e["sent"], m["req_body_len"])]
        if e["resp"][1] != m["status"]:
            return ["exchange %d: status %s, server sent %d" % (ei, e["resp"][1], m["status"])]
        if not e["tags"] or e["tags"][-1] != "Cleanup":
            return ["exchange %d: did not reach Cleanup: %s" % (ei, e["tags"])]
        if len(set(e["must_close"])) != 1:
            return ["exchange %d: must-close verdict differs between redirect and cleanup state: %s" % (ei, e["must_close"])]
    for r, run in enumerate(runs[1:], 1):
        if len(run) != len(ref):
            return ["schedule %d ran %d exchanges, canonical %d" % (r, len(run), len(ref))]
        for ei, (e, c) in enumerate(zip(run, ref)):
            for key, what in (("head", "request head bytes"), ("sent", "request body payload consumed"), ("resp", "response head"),
                              ("resp_body", "response body bytes"), ("consumed", "server bytes consumed"), ("status_q", "redirect status")):
                if e[key] != c[key]:
                    return ["schedule %d, exchange %d: %s differ from the canonical schedule (%r vs %r)" % (r, ei, what, str(e[key])[:80], str(c[key])[:80])]
            if [t for t in e["tags"]] != [t for t in c["tags"]]:
                # the path through Await100 may legitimately differ? no: same request, same states
                return ["schedule %d, exchange %d: state sequence %s vs %s" % (r, ei, e["tags"], c["tags"])]
            if set(e["must_close"]) != set(c["must_close"]) or set(e["reason"]) != set(c["reason"]):
                return ["schedule %d, exchange %d: connection-reuse verdict differs (%s %s vs %s %s)" % (r, ei, e["must_close"], e["reason"], c["must_close"], c["reason"])]
            m = meta["exchanges"][ei]
            # request payload: for a sized body the emitted bytes are the consumed bytes; for chunked the framing overhead differs by
            # schedule, the payload length does not
            if m["has_body"] and m["framing"] == "length":
                pos = 0
                body = bytes.fromhex(m["req_body"])
                for used, produced, cs in e["body_sums"]:
                    if produced != used or (cs is not None and cs != checksum(body[pos:pos + used])):
                        return ["schedule %d, exchange %d: sized body bytes on the wire are not the payload" % (r, ei)]
                    pos += used
            elif m["has_body"]:
                for used, produced, cs in e["body_sums"]:
                    if used > 0 and produced < used + 5:
                        return ["schedule %d, exchange %d: chunk framing missing (%d payload bytes in %d output bytes)" % (r, ei, used, produced)]
                    if used == 0 and produced not in (0, 5):
                        return ["schedule %d, exchange %d: %d bytes emitted for no input" % (r, ei, produced)]
    return fails


def nontrivial(script, obs):
    if script["meta"].get("kind") == "redirected-head":
        return any(op == "follow" and o == "ok" for op, o in zip(script["ops"], obs))
    return sum(1 for o in obs if o == "state Cleanup") >= sum(1 for o in script["ops"] if o.startswith("stream "))
