"""C05 -- Response head parsing is exact and safe on every prefix."""
from .lib import *

RULE = ("generated well-formed heads (versions 1.0/1.1, statuses 101..999, absent/empty/long/obs-text reason phrases, 0..128 fields "
        "and 129..140 fields for the limit, optional whitespace around values, empty values, obs-text, repeated names) followed by "
        "arbitrary further bytes; through Flow<RecvResponse>::try_response of a flow that reached RecvResponse by GET / HEAD / POST with body / "
        "POST+Expect continued / POST+Expect given up (nothing or a partial 100 seen); interim statuses 101,102,103,199 on each of these; a tenth of the heads through the single-call API (Call::try_response on growing prefixes). Prefixes: every prefix length for heads up to 700 bytes, "
        "otherwise every prefix within 3 bytes of a line end plus 60 random ones; each prefix is offered to a flow that has seen only "
        "shorter prefixes (the caller re-presents unconsumed bytes). 3xx heads with Location get every prefix after the Location line "
        "(known finding class partial-redirect). non-trivial = at least one strict prefix and the complete head were offered and the "
        "complete head was returned (or rejected for >128 fields); distinct = distinct heads")
TRUSTED_BASE = COMMON_TRUSTED_BASE
ASSUMPTIONS = ["status 100 belongs to C11", "httparse is modelled by hand (scalar semantics)"]
_stats = {"nfields": {}, "redirect_with_location": 0, "over_limit": 0, "prefixes": 0, "prelude": {}}
REST = [b"", b"body bytes", b"HTTP/1.1 200 OK\r\n\r\n", b"\r\n\r\n", b"\x00\xff garbage"]


def prelude(rng, kind=None):
    """How the flow got to RecvResponse: the head parser must not depend on it (except that a late 100 is C11's)."""
    kind = kind or rng.choice(["get", "get", "get", "head", "post", "expect-continued", "expect-giveup", "expect-giveup", "expect-partial"])
    _stats["prelude"][kind] = _stats["prelude"].get(kind, 0) + 1
    if kind == "get":
        return [op_new("GET"), "proceed", "write_head #4096", "proceed"]
    if kind == "head":
        return [op_new("HEAD"), "proceed", "write_head #4096", "proceed"]
    if kind == "post":
        return [op_new("POST", headers=[("content-length", "2")]), "proceed", "write_head #4096", "proceed", "write_body %s #100" % hx(b"hi"), "proceed"]
    ops = [op_new("POST", headers=[("content-length", "2"), ("expect", "100-continue")]), "proceed", "write_head #4096", "proceed"]
    if kind == "expect-continued":
        ops += ["raw_try100 %s" % hx(b"HTTP/1.1 100 Continue\r\n\r\n"), "proceed"]
    elif kind == "expect-partial":
        ops += ["raw_try100 %s" % hx(b"HTTP/1.1 1"), "proceed"]       # the client stops waiting; the bytes seen so far are NOT part of the stream below
    else:
        ops += ["raw_try100 x", "proceed"]                              # the client stops waiting without having seen anything
    return ops + ["write_body %s #100" % hx(b"hi"), "proceed"]


def gen_one(rng, nfields=None, force_redirect=False, kind=None, status=None):
    if nfields is None:
        r = rng.random()
        nfields = rng.choice([0, 0, 1, 1, 2, 3, 4, 5, 8]) if r < 0.8 else rng.choice([30, 64, 127, 128]) if r < 0.93 else rng.choice([129, 130, 140])
    bucket = "0" if nfields == 0 else "1-8" if nfields <= 8 else "9-128" if nfields <= 128 else ">128"
    _stats["nfields"][bucket] = _stats["nfields"].get(bucket, 0) + 1
    extra = []
    if status is not None:
        pass
    elif force_redirect or rng.random() < 0.2:
        status = rng.choice([301, 302, 303, 307, 308, 300, 399])
        extra = [(b"Location", rng.choice([b"/x", b"http://b.test/y", b"../z"]))]
        if rng.random() < 0.6:
            extra.append((b"Set-Cookie", b"a=b"))
        if rng.random() < 0.5:
            extra.append((b"Content-Length", b"0"))
        _stats["redirect_with_location"] += 1
    elif rng.random() < 0.3:
        extra = [(b"Content-Length", rng.choice([b"0", b"5", b"12345"]))]
    h = gen_response_head(rng, nfields, status=status, extra_fields=extra)
    total_fields = len(h["fields"])
    if total_fields > 128:
        _stats["over_limit"] += 1
    head = h["bytes"]
    rest = rng.choice(REST)
    stream = head + rest
    n = len(head)
    if n <= 700:
        cuts = list(range(0, n))
    else:
        s = set([0, 1, 7, 8, 9, 12, 13])
        for e in h["line_ends"]:
            for d in range(-3, 3):
                if 0 <= e + d < n:
                    s.add(e + d)
        for _ in range(60):
            s.add(rng.randrange(0, n))
        s.add(n - 1)
        cuts = sorted(s)
    ops = prelude(rng, kind) + ["stream %s" % hx(stream)]
    pos = 0
    known_from = None
    # first prefix after which the (complete lines of the) prefix contain location for a 3xx head
    loc_end = None
    if h["status"] // 100 == 3:
        for idx, (name, value) in enumerate(h["fields"]):
            if name.lower() == b"location":
                loc_end = h["line_ends"][idx + 1]
                break
            if value == b"":
                break  # the partial parser stops listing at the first empty value
    for c in cuts:
        ops.append("arrive %s" % num(c - pos))
        pos = c
        if loc_end is not None and c >= loc_end and known_from is None:
            known_from = len(ops)
        ops.append("try_response")
    _stats["prefixes"] += len(cuts)
    ops.append("arrive %s" % num(len(stream) - pos))
    ops.append("try_response")
    ops += ["q_can_proceed", "proceed"]
    return {"ops": ops, "meta": {"head": n, "version": h["version"], "status": h["status"], "nfields": total_fields,
                                 "expected": [[k.hex(), v.hex()] for k, v in h["expected"]],
                                 "line_ends": h["line_ends"], "known_from": known_from, "loc_end": loc_end}}


def gen_call(rng):
    """Every prefix of a head offered to ONE single-call API object (Call::try_response): a strict prefix consumes nothing, so the
    windows are simply the growing prefixes; then the complete head followed by further bytes."""
    nfields = rng.choice([0, 0, 1, 2, 3, 5])
    h = gen_response_head(rng, nfields, status=rng.choice([200, 204, 404, 500, 101, 199]), extra_fields=[(b"Content-Length", b"3")] if rng.random() < 0.4 else [])
    head = h["bytes"]
    n = len(head)
    cuts = list(range(0, n)) if n <= 250 else sorted(set([0, 1, 7, 8, 9, 12, 13, n - 3, n - 2, n - 1] + [rng.randrange(0, n) for _ in range(40)]))
    ops = call_recv_prelude(rng.choice(["GET", "POST", "DELETE"]))
    first = len(ops)
    ops += ["raw_try_response %s" % hx(head[:c]) for c in cuts]
    ops += ["q_is_finished", "raw_try_response %s" % hx(head + rng.choice(REST)), "q_is_finished"]
    _stats["prelude"]["call-api"] = _stats["prelude"].get("call-api", 0) + 1
    _stats["prefixes"] += len(cuts)
    return {"ops": ops, "meta": {"head": n, "version": h["version"], "status": h["status"], "nfields": len(h["fields"]), "api": "call", "first": first,
                                 "ncuts": len(cuts), "expected": [[k.hex(), v.hex()] for k, v in h["expected"]], "line_ends": h["line_ends"],
                                 "known_from": None, "loc_end": None}}


def oracle_call(script, obs):
    meta = script["meta"]
    if any(o == "panic" for o in obs):
        return ["panic (single-call API)"]
    first, k = meta["first"], meta["ncuts"]
    for j in range(first, first + k):
        if obs[j] != "none #0":
            return ["single-call API: strict prefix %d of a %d-byte head gave %s" % (len(unhex(script["ops"][j].split(" ")[1])), meta["head"], obs[j][:60])]
    if obs[first + k] != "false":
        return ["single-call API: Call::is_finished true before the head is complete"]
    o = obs[first + k + 1]
    if not o.startswith("some "):
        return ["single-call API: complete head not returned: %s" % o[:60]]
    used, ver, status, hs = parse_response_obs(o)
    expected = [(bytes.fromhex(a), bytes.fromhex(b)) for a, b in meta["expected"]]
    if used != meta["head"] or ver != meta["version"] or status != meta["status"] or hs != expected:
        return ["single-call API: head returned with consumed=%d version=%s status=%s, %d fields; expected %d, %s, %s, %d fields" % (
            used, ver, status, len(hs), meta["head"], meta["version"], meta["status"], len(expected))]
    if obs[first + k + 2] != "true":
        return ["single-call API: Call::is_finished false after the head"]
    return []


def generate(rng, tier, mult):
    count = (300 if tier == "quick" else 5000) * mult
    out = [gen_one(rng) for _ in range(count)]
    out += [gen_one(rng, nfields=rng.choice([0, 1, 2]), force_redirect=True) for _ in range(count // 6)]
    # interim statuses other than 100 on every way of reaching RecvResponse (a pending Expect handshake must only swallow a 100)
    out += [gen_call(rng) for _ in range(count // 10)]
    for kind in ("get", "post", "expect-continued", "expect-giveup", "expect-partial"):
        for st in (101, 102, 103, 199):
            out.append(gen_one(rng, nfields=rng.choice([0, 1, 2]), kind=kind, status=st))
    return out


def stats():
    return _stats


def corpus():
    rng = __import__("random").Random(5)
    return [gen_one(rng, nfields=1, force_redirect=True), gen_one(rng, nfields=129), gen_one(rng, nfields=128)]


def project(script, i, line):
    kf = script["meta"].get("known_from")
    if kf is not None and i >= kf and not __import__("os").environ.get("VERIF_FULL"):
        return None  # inside the known-finding class: the model comparison is skipped (DESIGN.md 3.3)
    return collapse(line)


def collapse(line):
    return "err" if line.startswith("err") else line


def known_class(script, obs):
    return None


def oracle(script, obs):
    if script["meta"].get("api") == "call":
        return oracle_call(script, obs)
    meta = script["meta"]
    n = meta["head"]
    expected = [(bytes.fromhex(k), bytes.fromhex(v)) for k, v in meta["expected"]]
    over = meta["nfields"] > 128
    end129 = meta["line_ends"][129] if over else None
    fails = []
    arrived = 0
    stream_len = 0
    done = False
    for i, (op, o) in enumerate(zip(script["ops"], obs)):
        p = op.split(" ")
        if o == "panic":
            return ["op %d: panic" % i]
        if p[0] == "stream":
            stream_len = len(unhex(p[1]))
        elif p[0] == "arrive":
            arrived = min(stream_len, arrived + unnum(p[1]))
        elif p[0] == "try_response" and not done:
            if arrived < n:
                if over and arrived >= end129:
                    if not o.startswith("err"):
                        fails.append("prefix %d of a head with %d fields: 129th field complete but no error: %s" % (arrived, meta["nfields"], o[:60]))
                        return fails
                    done = True
                    continue
                if o != "none #0":
                    what = "strict prefix of length %d of a %d-byte head gave %s" % (arrived, n, o[:70])
                    if o.startswith("some") and meta["loc_end"] is not None and arrived >= meta["loc_end"]:
                        return [(what, "partial-redirect")]
                    fails.append(what)
                    return fails
            else:
                done = True
                if over:
                    if not o.startswith("err"):
                        fails.append("head with %d fields accepted: %s" % (meta["nfields"], o[:60]))
                    return fails
                if not o.startswith("some "):
                    fails.append("complete head not returned: %s" % o[:80])
                    return fails
                used, ver, status, hs = parse_response_obs(o)
                if used != n:
                    fails.append("complete head consumed %d bytes, head is %d" % (used, n))
                if ver != meta["version"] or status != meta["status"]:
                    fails.append("version/status %s/%s, expected %s/%s" % (ver, status, meta["version"], meta["status"]))
                if hs != expected:
                    fails.append("fields differ: got %d fields, expected %d" % (len(hs), len(expected)))
                return fails
    return fails


def nontrivial(script, obs):
    return any((op == "try_response" or op.startswith("raw_try_response")) and (o.startswith("some") or o.startswith("err")) for op, o in zip(script["ops"], obs))


def known_still_fails(cls, impl):
    import subprocess
    head = b"HTTP/1.1 302 Found\r\nLocation: /x\r\nSet-Coo"
    ops = [op_new("GET"), "proceed", "write_head #4096", "proceed", "raw_try_response %s" % hx(head)]
    out = subprocess.run([impl], input="S 0\n" + "\n".join(ops) + "\nE\n", capture_output=True, text=True, timeout=30).stdout.split("\n")
    return any(l.startswith("some") for l in out)
