"""Shared helpers for the per-property generators and oracles: script construction, observation parsing,
independent (Python) codecs used by the oracles."""
import re

METHODS = ["GET", "HEAD", "POST", "PUT", "DELETE", "CONNECT", "OPTIONS", "TRACE", "PATCH"]
BODY_METHODS = ["POST", "PUT", "PATCH"]
HTTP10_METHODS = ["GET", "HEAD", "POST"]

COMMON_TRUSTED_BASE = [
    "Coq 8.16.1 kernel incl. vm_compute (no native_compute); full .vo build via coq_makefile",
    "axioms: none expected (Print Assumptions of every property theorem is checked to be 'Closed under the global context')",
    "hand-written Gallina model coq/theories/{Bytes,Base,Chunk,Body,Httparse,Parser,Url,Request,Call,Flow,Script}.v",
    "correspondence check: extraction (ExtrOcamlBasic directives only: bool, option, unit, list, prod, sumbool, sumor; andb/orb inlined), ocamlfind ocamlopt 4.13.1, modelrun/driver.ml, harness/src/main.rs, rustc/cargo, verif.py and props_py/*",
    "tools/source_facts.py (regenerates Constants.v from /repo/src by anchored regular expressions)",
    "externals modelled by hand, tied to the code only by the correspondence check: httparse 1.9.5 (scalar semantics), http 1.1.0 (HeaderName/HeaderValue/HeaderMap/Method/StatusCode/Uri accessors), url 2.5 join on the RFC 3986 grammar, std number parsing/formatting",
]


def hx(b):
    if isinstance(b, str):
        b = b.encode("latin-1")
    return "x" + bytes(b).hex()


def num(n):
    return "#%d" % n


def pattern(n):
    return bytes(((i * 7 + 3) & 255) for i in range(n))


def unhex(tok):
    if tok.startswith("z"):
        return pattern(int(tok[1:]))
    assert tok.startswith("x"), tok
    return bytes.fromhex(tok[1:])


def unnum(tok):
    assert tok.startswith("#"), tok
    return int(tok[1:])


def group_headers(headers):
    """Order in which http::HeaderMap::iter yields appended headers: grouped by (lower-cased) name in
    first-insertion order, values in insertion order."""
    order = []
    groups = {}
    for k, v in headers:
        k = k.lower() if isinstance(k, (bytes, bytearray)) else k.encode("latin-1").lower()
        v = v if isinstance(v, (bytes, bytearray)) else v.encode("latin-1")
        if k not in groups:
            groups[k] = []
            order.append(k)
        groups[k].append(v)
    out = []
    for k in order:
        for v in groups[k]:
            out.append((k, v))
    return out


def request_args(method, version, scheme, auth, pq, headers):
    """Arguments of new / call_without / call_with. headers: list of (name, value)."""
    hs = group_headers(headers)
    parts = [method, version, hx(scheme), hx(auth), hx(pq)]
    for k, v in hs:
        parts.append(hx(k))
        parts.append(hx(v))
    return " ".join(parts)


def op_new(method, version="1.1", scheme="http", auth="a.test", pq="/", headers=()):
    return "new " + request_args(method, version, scheme, auth, pq, headers)


def is_ok(line):
    return line.startswith("ok")


def checksum(b):
    s1 = 7
    s2 = 0
    for x in b:
        s1 += x
        s2 += s1
    return s2


class Summed(object):
    """Output reported as length + checksum only (write_sum / write_from)."""
    def __init__(self, n, cs):
        self.n = n
        self.cs = cs

    def __len__(self):
        return self.n

    def __eq__(self, other):
        if isinstance(other, (bytes, bytearray)):
            return len(other) == self.n and checksum(other) == self.cs
        return isinstance(other, Summed) and (self.n, self.cs) == (other.n, other.cs)

    def __ne__(self, other):
        return not self.__eq__(other)


def parse_counts(line):
    """'ok #i #o xhex' -> (i, o, bytes);  'ok #i #o #checksum' -> (i, o, Summed)"""
    p = line.split(" ")
    if p[3].startswith("#"):
        return unnum(p[1]), unnum(p[2]), Summed(unnum(p[2]), unnum(p[3]))
    return unnum(p[1]), unnum(p[2]), unhex(p[3])


def parse_head_write(line):
    """'ok #n xhex' -> (n, bytes)"""
    p = line.split(" ")
    return unnum(p[1]), unhex(p[2])


def parse_headers(parts):
    n = unnum(parts[0])
    hs = []
    for i in range(n):
        hs.append((unhex(parts[1 + 2 * i]), unhex(parts[2 + 2 * i])))
    return hs


def parse_response_obs(line):
    """'some #used #ver #status #n ...' -> (used, ver, status, headers);  'none #used' -> (used, None...)"""
    p = line.split(" ")
    if p[0] == "none":
        return (unnum(p[1]) if len(p) > 1 else 0, None, None, None)
    assert p[0] == "some"
    return (unnum(p[1]), unnum(p[2]), unnum(p[3]), parse_headers(p[4:]))


def render_response_head(version, status, reason, fields, ows_before=b" ", ows_after=b""):
    """fields: list of (name bytes, value bytes)."""
    out = b"HTTP/" + version.encode() + b" " + (b"%03d" % status)
    if reason is not None:
        out += b" " + reason
    out += b"\r\n"
    for k, v in fields:
        out += k + b":" + ows_before + v + ows_after + b"\r\n"
    out += b"\r\n"
    return out


def enc_chunked(chunks, ext=b"", trailers=(), upper=False, lead_zeros=0):
    out = b""
    for c in chunks:
        h = ("%x" % len(c)).encode()
        if upper:
            h = h.upper()
        out += b"0" * lead_zeros + h + ext + b"\r\n" + c + b"\r\n"
    out += b"0" * lead_zeros + b"0" + ext + b"\r\n"
    for t in trailers:
        out += t + b"\r\n"
    out += b"\r\n"
    return out


def parse_chunked_strict(data):
    """Independent strict parser of a chunked coding produced by the *client* (lower-case hex, no
    extensions). Returns (list of chunk datas, terminated?, rest) or raises ValueError."""
    chunks = []
    pos = 0
    while pos < len(data):
        m = re.match(rb"([0-9a-f]+)\r\n", data[pos:])
        if not m:
            raise ValueError("bad size line at %d" % pos)
        digits = m.group(1)
        if len(digits) > 1 and digits[0:1] == b"0":
            raise ValueError("leading zero in size line at %d" % pos)
        n = int(digits, 16)
        pos += m.end()
        if n == 0:
            if data[pos:pos + 2] != b"\r\n":
                raise ValueError("terminator not followed by CRLF at %d" % pos)
            pos += 2
            return chunks, True, data[pos:]
        if pos + n + 2 > len(data):
            raise ValueError("incomplete chunk at %d" % pos)
        chunks.append(data[pos:pos + n])
        if data[pos + n:pos + n + 2] != b"\r\n":
            raise ValueError("chunk data not followed by CRLF at %d" % pos)
        pos += n + 2
    return chunks, False, b""


def sample_lines(ops, limit=300):
    return [o if len(o) < limit else o[:limit] + "..." for o in ops]
