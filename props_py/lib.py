"""Shared helpers for the per-property generators and oracles: script construction, observation parsing,
independent (Python) codecs used by the oracles."""
import re

METHODS = ["GET", "HEAD", "POST", "PUT", "DELETE", "CONNECT", "OPTIONS", "TRACE", "PATCH"]
BODY_METHODS = ["POST", "PUT", "PATCH"]
HTTP10_METHODS = ["GET", "HEAD", "POST"]

COMMON_TRUSTED_BASE = [
    "Coq 8.16.1 kernel incl. vm_compute (no native_compute); full .vo build via coq_makefile",
    "axioms: none expected (Print Assumptions of every property theorem is checked to be 'Closed under the global context')",
    "hand-written Gallina model coq/theories/{Bytes,Base,Chunk,Body,Httparse,Parser,Url,Request,Call,Flow,Script}.v: its faithfulness to the Rust code is validated by the correspondence check, not proved (except the translated functions)",
    "correspondence check: extraction (ExtrOcamlBasic directives only: bool, option, unit, list, prod, sumbool, sumor; andb/orb inlined), ocamlfind ocamlopt 4.13.1, modelrun/driver.ml, harness/src/main.rs, rustc/cargo, verif.py and props_py/*",
    "tools/source_facts.py (regenerates Constants.v from /repo/src by anchored regular expressions)",
    "tools/rs2coq.py (translator Rust -> Gallina for the decision tables of ext.rs, for_response, calculate_max_input, max_chunk_fit: Gen.v, regenerated each run; usize as N, '-' as truncated subtraction, overflow of + and * not modelled); the equalities Gen = model are theorems (proofs/Gen_equiv_*.v); the same for single expressions (byte counts of body reads/writes, refusal guards: FRAGMENTS, proofs/Gen_equiv_frag.v) -- a fragment the translator does not find is listed under facts.fragments_not_found and is then tied by the correspondence check only",
    "tools/rs2coq2.py + tools/rsparse.py (translator for WHOLE functions, state-passing: Gen2.v regenerated each run from src/util.rs find_crlf / compare_lowercase_ascii, every method of src/chunk.rs, and BodyReader / BodyWriter / write_chunk / header_defined / for_response of src/body.rs; proofs/Gen2_equiv_*.v prove the translation equivalent to the model for all arguments, exported by C03 C04 C06 C07 C08 C12). Trusted in it: usize/u64 as N ('-' truncated, no overflow of + and *), out-of-range slices not translated, Writer::try_write over std::io::Cursor read as all-or-nothing, str::from_utf8 / trim / from_str_radix / parse::<u64> / Iterator adaptors replaced by the model's definitions of them (Bytes.v, GenLib.v), the object's state after an Err not translated. A function outside the translated subset, or whose interface changed, is replaced by its translation at the pinned commit (tools/gen2_baseline.json) and listed under facts.translator2_fallbacks: it is then tied by the correspondence check only",
    "kernel cross-check: a seeded sample of the scripts is evaluated inside Coq (vm_compute) and compared with the extracted model's output on every run, which removes extraction, ocamlopt and the OCaml driver from the trusted base for that sample",
    "externals modelled by hand, tied to the code only by the correspondence check: httparse 1.9.5 (scalar semantics), http 1.1.0 (HeaderName/HeaderValue/HeaderMap/Method/StatusCode/Uri accessors), url 2.5 join on the RFC 3986 grammar, std number parsing/formatting",
]


def hx(b):
    if isinstance(b, str):
        b = b.encode("latin-1")
    return "x" + bytes(b).hex()


def num(n):
    return "#%d" % n


def pattern(n):
    return bytes(((i * 7 + 3) & 255) for i in range(n))


def unhex(tok):
    if tok.startswith("z"):
        return pattern(int(tok[1:]))
    assert tok.startswith("x"), tok
    return bytes.fromhex(tok[1:])


def unnum(tok):
    assert tok.startswith("#"), tok
    return int(tok[1:])


def group_headers(headers):
    """Order in which http::HeaderMap::iter yields appended headers: grouped by (lower-cased) name in
    first-insertion order, values in insertion order."""
    order = []
    groups = {}
    for k, v in headers:
        k = k.lower() if isinstance(k, (bytes, bytearray)) else k.encode("latin-1").lower()
        v = v if isinstance(v, (bytes, bytearray)) else v.encode("latin-1")
        if k not in groups:
            groups[k] = []
            order.append(k)
        groups[k].append(v)
    out = []
    for k in order:
        for v in groups[k]:
            out.append((k, v))
    return out


def request_args(method, version, scheme, auth, pq, headers):
    """Arguments of new / call_without / call_with. headers: list of (name, value)."""
    hs = group_headers(headers)
    parts = [method, version, hx(scheme), hx(auth), hx(pq)]
    for k, v in hs:
        parts.append(hx(k))
        parts.append(hx(v))
    return " ".join(parts)


def op_new(method, version="1.1", scheme="http", auth="a.test", pq="/", headers=()):
    return "new " + request_args(method, version, scheme, auth, pq, headers)


def is_ok(line):
    return line.startswith("ok")


def checksum(b):
    s1 = 7
    s2 = 0
    for x in b:
        s1 += x
        s2 += s1
    return s2


class Summed(object):
    """Output reported as length + checksum only (write_sum / write_from)."""
    def __init__(self, n, cs):
        self.n = n
        self.cs = cs

    def __len__(self):
        return self.n

    def __eq__(self, other):
        if isinstance(other, (bytes, bytearray)):
            return len(other) == self.n and checksum(other) == self.cs
        return isinstance(other, Summed) and (self.n, self.cs) == (other.n, other.cs)

    def __ne__(self, other):
        return not self.__eq__(other)


def parse_counts(line):
    """'ok #i #o xhex' -> (i, o, bytes);  'ok #i #o #checksum' -> (i, o, Summed)"""
    p = line.split(" ")
    if p[3].startswith("#"):
        return unnum(p[1]), unnum(p[2]), Summed(unnum(p[2]), unnum(p[3]))
    return unnum(p[1]), unnum(p[2]), unhex(p[3])


def parse_head_write(line):
    """'ok #n xhex' -> (n, bytes)"""
    p = line.split(" ")
    return unnum(p[1]), unhex(p[2])


def parse_headers(parts):
    n = unnum(parts[0])
    hs = []
    for i in range(n):
        hs.append((unhex(parts[1 + 2 * i]), unhex(parts[2 + 2 * i])))
    return hs


def parse_response_obs(line):
    """'some #used #ver #status #n ...' -> (used, ver, status, headers);  'none #used' -> (used, None...)"""
    p = line.split(" ")
    if p[0] == "none":
        return (unnum(p[1]) if len(p) > 1 else 0, None, None, None)
    assert p[0] == "some"
    return (unnum(p[1]), unnum(p[2]), unnum(p[3]), parse_headers(p[4:]))


def render_response_head(version, status, reason, fields, ows_before=b" ", ows_after=b""):
    """fields: list of (name bytes, value bytes)."""
    out = b"HTTP/" + version.encode() + b" " + (b"%03d" % status)
    if reason is not None:
        out += b" " + reason
    out += b"\r\n"
    for k, v in fields:
        out += k + b":" + ows_before + v + ows_after + b"\r\n"
    out += b"\r\n"
    return out


def enc_chunked(chunks, ext=b"", trailers=(), upper=False, lead_zeros=0):
    out = b""
    for c in chunks:
        h = ("%x" % len(c)).encode()
        if upper:
            h = h.upper()
        out += b"0" * lead_zeros + h + ext + b"\r\n" + c + b"\r\n"
    out += b"0" * lead_zeros + b"0" + ext + b"\r\n"
    for t in trailers:
        out += t + b"\r\n"
    out += b"\r\n"
    return out


def parse_chunked_strict(data):
    """Independent strict parser of a chunked coding produced by the *client* (lower-case hex, no
    extensions). Returns (list of chunk datas, terminated?, rest) or raises ValueError."""
    chunks = []
    pos = 0
    while pos < len(data):
        m = re.match(rb"([0-9a-f]+)\r\n", data[pos:])
        if not m:
            raise ValueError("bad size line at %d" % pos)
        digits = m.group(1)
        if len(digits) > 1 and digits[0:1] == b"0":
            raise ValueError("leading zero in size line at %d" % pos)
        n = int(digits, 16)
        pos += m.end()
        if n == 0:
            if data[pos:pos + 2] != b"\r\n":
                raise ValueError("terminator not followed by CRLF at %d" % pos)
            pos += 2
            return chunks, True, data[pos:]
        if pos + n + 2 > len(data):
            raise ValueError("incomplete chunk at %d" % pos)
        chunks.append(data[pos:pos + n])
        if data[pos + n:pos + n + 2] != b"\r\n":
            raise ValueError("chunk data not followed by CRLF at %d" % pos)
        pos += n + 2
    return chunks, False, b""


def sample_lines(ops, limit=300):
    return [o if len(o) < limit else o[:limit] + "..." for o in ops]


# --------------------------------------------------------------------------- head generators (C05, C20, C11, C01)

TCHARS = b"!#$%&'*+-.^_`|~0123456789abcdefghijklmnopqrstuvwxyzABCDEFGHIJKLMNOPQRSTUVWXYZ"
NAMES = [b"Content-Type", b"X-A", b"x-b", b"Set-Cookie", b"Server", b"Date", b"Via", b"ETag", b"Vary", b"X-Long-Header-Name-For-Testing",
         b"Cache-Control", b"Accept-Ranges", b"a", b"Z9", b"x!#$%&'*+-.^_`|~"]


def gen_field_value(rng):
    r = rng.random()
    if r < 0.1:
        return b""
    if r < 0.2:
        return bytes([rng.choice([0x80, 0xFF, 0xE9])]) + b"obs" + bytes([rng.choice([0x80, 0xFE])])
    if r < 0.27:
        return b"a b\tc"
    if r < 0.33:
        # obs-text that happens to be valid UTF-8 and starts / ends with a Unicode white-space character: part of the value (only SP and
        # HTAB around a value are optional white space)
        ws = [b"\xc2\xa0", b"\xc2\x85", b"\xe3\x80\x80", b"\xe2\x80\x83", b"\xe2\x80\xa8"]
        return rng.choice([rng.choice(ws) + b"v" + rng.choice(ws), rng.choice(ws) + b"x", b"y" + rng.choice(ws), rng.choice(ws)])
    n = rng.choice([1, 2, 5, 12, 40]) if rng.random() < 0.9 else rng.randrange(40, 300)
    alphabet = b"abcdefghijklmnopqrstuvwxyz0123456789=;,/:\"()<>@[]{}?-_."
    v = bytes(rng.choice(alphabet) for _ in range(n))
    return v


def gen_response_head(rng, nfields, status=None, version=None, extra_fields=(), names=None):
    """Returns dict: bytes, version (0/1), status, fields (as sent: name, value-without-OWS), line_ends (offsets
    just after each line's LF, first = status line), expected (grouped, lower-cased)."""
    version = version or rng.choice(["1.1", "1.1", "1.0"])
    if status is None:
        status = rng.choice([200, 200, 201, 204, 301, 302, 304, 404, 500, 101, 199, 999, 600]) if rng.random() < 0.8 else rng.randrange(101, 1000)
    r = rng.random()
    if r < 0.15:
        reason = None
    elif r < 0.3:
        reason = b""
    elif r < 0.4:
        reason = b"Very " * rng.randrange(1, 40) + b"Long Reason"
    elif r < 0.5:
        reason = b"caf\xe9 \x80\xff"
    else:
        reason = rng.choice([b"OK", b"Found", b"Not Found", b"Continue", b"x\ty"])
    out = b"HTTP/" + version.encode() + b" " + (b"%03d" % status)
    if reason is not None:
        out += b" " + reason
    out += b"\r\n"
    line_ends = [len(out)]
    fields = []
    pool = names or NAMES
    for i in range(nfields):
        if rng.random() < 0.85:
            name = rng.choice(pool)
        else:
            name = bytes(rng.choice(TCHARS) for _ in range(rng.randrange(1, 20)))
        value = gen_field_value(rng)
        fields.append((name, value))
    fields = list(extra_fields) + fields
    rng.shuffle(fields) if extra_fields and rng.random() < 0.5 else None
    for name, value in fields:
        ows1 = rng.choice([b"", b" ", b" ", b" ", b"\t", b"  \t "])
        ows2 = rng.choice([b"", b"", b"", b" ", b"\t", b" \t "])
        out += name + b":" + ows1 + value + ows2 + b"\r\n"
        line_ends.append(len(out))
    out += b"\r\n"
    return {"bytes": out, "version": 0 if version == "1.0" else 1, "status": status, "fields": fields,
            "line_ends": line_ends, "expected": group_headers(fields)}


def strip_ows(v):
    return v.strip(b" \t")


METHOD_TOKENS = [b"GET", b"POST", b"HEAD", b"PUT", b"DELETE", b"OPTIONS", b"PATCH", b"TRACE", b"CONNECT", b"PROPFIND", b"M-SEARCH", b"X", b"a.b"]
TARGETS = [b"/", b"/a/b?c=d", b"*", b"http://a.test/x", b"a.test:443", b"/%20x;y", b"/" + b"p" * 200]


def gen_request_head(rng, nfields):
    method = rng.choice(METHOD_TOKENS)
    target = rng.choice(TARGETS)
    version = rng.choice(["1.1", "1.1", "1.0"])
    out = method + b" " + target + b" HTTP/" + version.encode() + b"\r\n"
    line_ends = [len(out)]
    fields = []
    for i in range(nfields):
        name = rng.choice(NAMES) if rng.random() < 0.85 else bytes(rng.choice(TCHARS) for _ in range(rng.randrange(1, 20)))
        fields.append((name, gen_field_value(rng)))
    for name, value in fields:
        ows1 = rng.choice([b"", b" ", b" ", b"\t"])
        ows2 = rng.choice([b"", b"", b" ", b"\t"])
        out += name + b":" + ows1 + value + ows2 + b"\r\n"
        line_ends.append(len(out))
    out += b"\r\n"
    return {"bytes": out, "method": method, "version": 0 if version == "1.0" else 1, "fields": fields,
            "line_ends": line_ends, "expected": group_headers(fields)}


def call_recv_prelude(method="GET", version="1.1", headers=()):
    """Operations that bring a single-call API object (Call::without_body / Call::with_body) to Call<RecvResponse>:
    the request is written completely, then into_receive (operation proceed)."""
    if method in BODY_METHODS:
        hs = list(headers) + [("content-length", "2")]
        return ["call_with " + request_args(method, version, "http", "a.test", "/c", hs), "write_body x #4096",
                "write_body %s #100" % hx(b"hi"), "q_is_finished", "proceed"]
    return ["call_without " + request_args(method, version, "http", "a.test", "/c", list(headers)), "write_head #4096", "q_is_finished", "proceed"]


# Interim responses (1xx other than an awaited 100) that a server may send before the final response: the caller gets each one from
# try_response and calls try_response again on the same flow. None of their fields may leak into the final response's handling.
INTERIM_HEADS = [
    b"HTTP/1.1 103 Early Hints\r\nLink: </s.css>; rel=preload\r\n\r\n",
    b"HTTP/1.1 102 Processing\r\n\r\n",
    b"HTTP/1.1 103 Early Hints\r\nLocation: http://evil.test/early\r\nContent-Length: 9\r\nTransfer-Encoding: chunked\r\n\r\n",
    b"HTTP/1.1 100 Continue\r\n\r\n",        # a 100 that is not awaited (no Expect, or a second one): handed to the caller like any interim response
]


# ------------------------------------------------------------------ shared request / response contexts
# What the seeded rounds taught (DESIGN.md 14.1-14.3): a property about one phase of an exchange must hold however the flow got there.
# These helpers give every generator the same variety of routes.

REDIR_302 = b"HTTP/1.1 302 Found\r\nLocation: /next\r\nContent-Length: 0\r\n\r\n"
R100 = b"HTTP/1.1 100 Continue\r\n\r\n"


def head_write_ops(rng):
    """Writes of the request head: usually one large buffer; sometimes small segments first, an empty buffer first, and one call more than
    needed afterwards (all of which must change nothing about what follows)."""
    ops = []
    r = rng.random()
    if r < 0.15:
        ops.append("write_head #0")
    if r < 0.3:
        for _ in range(rng.randrange(1, 6)):
            ops.append("write_head %s" % num(rng.choice([1, 7, 14, 16, 17, 18, 22, 23, 24, 25, 28, 29, 30, 31, 40, 64])))
    ops.append("write_head #100000")
    if rng.random() < 0.2:
        ops.append("write_head #100000")
    return ops


def send_context(rng, framing, route=None):
    """Operations after which a flow is in SendBody with the given framing of its request body:
    framing = "chunked" or ("length", N).  Returns (ops, route name).  Routes: the framing header on the original request / added in
    Prepare / left to the default (chunked); a body method, or a body-less method with send_body_despite_method; HTTP/1.0 (POST, GET);
    an explicit Host header; the Expect: 100-continue handshake (continued, given up with nothing or a partial 100 seen); a second hop
    (the request made by as_new_flow from a redirected POST, given a body on request); the head written in segments."""
    length = None if framing == "chunked" else framing[1]
    routes = ["original", "original", "added", "despite", "despite-added", "http10", "host", "expect-continued", "expect-giveup", "expect-partial", "hop2"]
    if framing == "chunked":
        routes += ["default", "default", "default-despite"]
    route = route or rng.choice(routes)
    fh = ("transfer-encoding", rng.choice(["chunked", "Chunked"])) if length is None else ("content-length", str(length))
    add = "header %s %s" % (hx(fh[0]), hx(fh[1]))
    extra = [("x-a", "b")] if rng.random() < 0.3 else []
    method = rng.choice(BODY_METHODS)
    nobody = rng.choice(["GET", "DELETE", "OPTIONS"])
    if route == "original":
        ops = [op_new(method, "1.1", "http", "a.test", "/up", extra + [fh]), "proceed"]
    elif route == "default":
        ops = [op_new(method, "1.1", "http", "a.test", "/up", extra), "proceed"]
    elif route == "default-despite":
        ops = [op_new(nobody, "1.1", "http", "a.test", "/up", extra), "despite", "proceed"]
    elif route == "added":
        ops = [op_new(method, "1.1", "http", "a.test", "/up", extra), add, "proceed"]
    elif route == "despite":
        ops = [op_new(nobody, "1.1", "http", "a.test", "/up", extra + [fh]), "despite", "proceed"]
    elif route == "despite-added":
        first, second = rng.choice([("despite", add), (add, "despite")])
        ops = [op_new(nobody, "1.1", "http", "a.test", "/up", extra), first, second, "proceed"]
    elif route == "http10":
        m10 = rng.choice(["POST", "POST", "GET"])
        ops = [op_new(m10, "1.0", "http", "a.test", "/up", extra + [fh])] + (["despite"] if m10 == "GET" else []) + ["proceed"]
    elif route == "host":
        ops = [op_new(method, "1.1", "http", "a.test", "/up", extra + [("host", "own-host.test"), fh]), "proceed"]
    elif route == "hop2":
        # (the first hop has no body, so that the SendBody state reached is the one of the second hop; its request carries headers that are
        # not inherited: a Content-Length of its own -- refused? no: a GET may not declare one -- so cookie and authorization)
        ops = [op_new("GET", "1.1", "http", "a.test", "/first", [("cookie", "c=1"), ("authorization", "tok"), ("accept", "*/*")]), "proceed", "write_head #100000", "proceed",
               "raw_try_response %s" % hx(REDIR_302), "proceed", "as_new_flow never", "follow", "despite", add, "proceed"]
    else:
        ops = [op_new(method, "1.1", "http", "a.test", "/up", extra + [("expect", "100-continue"), fh]), "proceed"]
    ops += head_write_ops(rng) + ["proceed"]
    if route == "expect-continued":
        ops += ["raw_try100 %s" % hx(R100), "proceed"]
    elif route == "expect-giveup":
        ops += ["raw_try100 x", "proceed"]
    elif route == "expect-partial":
        ops += ["raw_try100 %s" % hx(R100[:rng.randrange(1, len(R100))]), "proceed"]
    return ops, route


def recv_context(rng, kind=None, body_allowed=True):
    """Operations after which a flow is in RecvResponse, plus the bytes a server may have sent ahead of the response head (a late 100
    Continue when the client gave up waiting).  Returns (ops, prefix bytes, info).  Kinds: GET / DELETE / OPTIONS, HEAD and CONNECT (only when
    the caller can deal with their no-body rules), POST with its body sent, an HTTP/1.0 request, Connection: close on the request, the
    Expect handshake continued / given up, a body-less method that sent a body on request, the request of a second hop."""
    kinds = ["get", "get", "delete", "post", "get-1.0", "get-close", "expect-continued", "expect-giveup", "expect-giveup-late100", "despite", "hop2"]
    if not body_allowed:
        kinds += ["head", "connect"]
    kind = kind or rng.choice(kinds)
    prefix = b""
    if kind in ("get", "delete", "head", "connect"):
        ops = [op_new(kind.upper()), "proceed"] + head_write_ops(rng) + ["proceed"]
    elif kind == "get-1.0":
        ops = [op_new("GET", "1.0"), "proceed"] + head_write_ops(rng) + ["proceed"]
    elif kind == "get-close":
        ops = [op_new("GET", headers=[("connection", "close")]), "proceed"] + head_write_ops(rng) + ["proceed"]
    elif kind == "post":
        ops = [op_new("POST", headers=[("content-length", "2")]), "proceed"] + head_write_ops(rng) + ["proceed", "write_body %s #100" % hx(b"hi"), "proceed"]
    elif kind == "despite":
        ops = [op_new("GET"), "despite", "proceed"] + head_write_ops(rng) + ["proceed", "write_body %s #100" % hx(b"hi"), "write_body x #100", "proceed"]
    elif kind == "hop2":
        ops = [op_new("GET", headers=[("cookie", "c=1"), ("accept", "*/*")]), "proceed", "write_head #100000", "proceed", "raw_try_response %s" % hx(REDIR_302),
               "proceed", "as_new_flow never", "follow", "proceed"] + head_write_ops(rng) + ["proceed"]
    else:
        ops = [op_new("POST", headers=[("content-length", "2"), ("expect", "100-continue")]), "proceed"] + head_write_ops(rng) + ["proceed"]
        if kind == "expect-continued":
            ops += ["raw_try100 %s" % hx(R100), "proceed"]
        else:
            ops += [rng.choice(["raw_try100 x", "raw_try100 %s" % hx(R100[:10])]), "proceed"]
            if kind == "expect-giveup-late100":
                prefix = R100
        ops += ["write_body %s #100" % hx(b"hi"), "proceed"]
    return ops, prefix, {"kind": kind, "http10_request": kind == "get-1.0", "request_close": kind == "get-close"}
