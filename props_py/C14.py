"""C14 -- Redirect target resolves the last Location against the current URI (RFC 3986)."""
from .lib import *
from . import redirects as R

RULE = ("redirect chains of 1..4 hops; Locations drawn from: absolute http/https URIs with/without ports (incl. default ports, upper-case "
        "scheme/host), scheme-relative, path-absolute, path-relative with ./ and ../ segments, query-only, empty, with fragments; "
        "sometimes two Location fields (the last wins); 6% malformed Locations (empty host, port 99999, space in host, bad port, "
        "unterminated IPv6) that must be errors; original requests over http/https, three hosts, ports, with/without explicit Host "
        "(explicit Host = known finding class inherited-host); origin-form request URIs (no base to resolve against: must be an error). After each hop: q_uri, request line and Host of the next head. "
        "oracle = independent Python RFC 3986 section 5 resolver + url-crate normalisations. non-trivial = >= 1 hop followed and the "
        "next head inspected; distinct = distinct op lists")
TRUSTED_BASE = COMMON_TRUSTED_BASE
ASSUMPTIONS = ["the url crate (WHATWG URL) is modelled as RFC 3986 section 5.2 + scheme/host lower-casing + default-port elision + empty path -> '/' on the "
               "grammar above; Locations outside that grammar (backslashes, tabs, percent-encoding rewrites, userinfo, IPv6, IDNA, 'http:g') are outside the model",
               "malformed Locations are oracle-only (must be an error, never a panic, never a flow): the model comparison is skipped from that operation on"]
_stats = {"hops": {}, "malformed": 0, "two_locations": 0, "explicit_host": 0}


def generate(rng, tier, mult):
    count = (1500 if tier == "quick" else 15000) * mult
    out = []
    for _ in range(count):
        ops, meta = R.gen_chain(rng, malformed_prob=0.06, add_at_hops=False)
        nh = sum(1 for h in meta["hops"] if h.get("followed"))
        _stats["hops"][str(nh)] = _stats["hops"].get(str(nh), 0) + 1
        _stats["malformed"] += sum(1 for h in meta["hops"] if h.get("malformed"))
        _stats["two_locations"] += sum(1 for h in meta["hops"] if h.get("n_loc") == 2)
        _stats["explicit_host"] += 1 if meta["explicit_host"] else 0
        out.append({"ops": ops, "meta": meta})
    # F19 (repaired): a request in origin-form (no scheme / authority, explicit Host) cannot be a base for resolution: every
    # Location is "unresolvable" and must be reported as an error, never a panic
    for loc in [b"/y", b"http://b.test/y", b"../z", b"", b"?q", b"//c.test/"]:
        for st in (301, 307):
            ops = ["new " + request_args("GET", "1.1", "", "", "/x", [(b"host", b"a.test")]), "q_uri", "q_method", "proceed", "write_head #100000", "proceed",
                   "raw_try_response %s" % hx(render_response_head("1.1", st, b"F", [(b"Location", loc), (b"Content-Length", b"0")])),
                   "proceed", "as_new_flow never", "as_new_flow same_host", "q_must_close", "proceed", "q_must_close"]
            meta = {"scheme": "", "host": "", "port": "", "policy": "never", "orig_headers": [[b"host".hex(), b"a.test".hex()]], "explicit_host": True,
                    "hops": [{"hop": 0, "added": [], "head_idx": 4, "quri_idx": 1, "qmethod_idx": 2, "uri": ["", "", b"/x".hex(), None], "method": "GET",
                              "status": st, "location": loc.hex(), "anf_idx": 8, "malformed": True, "n_loc": 1, "followed": False}],
                    "stopped": 0, "method": "GET", "origin_form": True}
            out.append({"ops": ops, "meta": meta})
    # a redirected request that request analysis refuses (the POST's own Transfer-Encoding: chunked is inherited by the GET it is rewritten
    # to): whatever the caller retries on that flow, a head that is written must be complete -- request line and Host of the resolved
    # target (seeded change C14-18: analysis marked as done although it failed, the retry wrote a head without Host)
    for st in (301, 302, 303):
        for loc in (b"/next?x=1", b"http://b.test/other"):
            for retry in (["write_head #100000", "write_head #100000"], ["headers_map", "write_head #100000"], ["write_head #5", "write_head #100000", "write_head #100000"]):
                ops = ["new " + request_args("POST", "1.1", "http", "a.test", "/start", [(b"transfer-encoding", b"chunked")]), "proceed", "write_head #100000", "proceed",
                       "write_body %s #100" % hx(b"hi"), "write_body x #100", "proceed",
                       "raw_try_response %s" % hx(render_response_head("1.1", st, b"F", [(b"Location", loc), (b"Content-Length", b"0")])),
                       "proceed", "as_new_flow never", "follow", "q_uri", "proceed"] + retry
                out.append({"ops": ops, "meta": {"kind": "refused-retry", "n_retry": len(retry), "host": (b"b.test" if loc.startswith(b"http") else b"a.test").hex(),
                                                 "hops": []}})
    return out


def stats():
    return _stats


def corpus():
    # two-hop chain where resolving against the original instead of the current URI gives a different answer
    ops = [op_new("GET", "1.1", "http", "a.test", "/d1/d2/page", []), "q_uri", "q_method", "proceed", "write_head #100000", "proceed",
           "raw_try_response %s" % hx(render_response_head("1.1", 302, b"F", [(b"Location", b"http://b.test/x/y/z"), (b"Content-Length", b"0")])),
           "proceed", "as_new_flow never", "follow", "q_uri", "q_method", "proceed", "write_head #100000", "proceed",
           "raw_try_response %s" % hx(render_response_head("1.1", 302, b"F", [(b"Location", b"../w"), (b"Content-Length", b"0")])),
           "proceed", "as_new_flow never", "follow", "q_uri", "q_method", "proceed", "write_head #100000"]
    u0 = (b"http", b"a.test", b"/d1/d2/page", None)
    u1 = R.resolve(u0, b"http://b.test/x/y/z")
    u2 = R.resolve(u1, b"../w")
    def hm(h, u, head_idx, anf=None, loc=None):
        d = {"hop": h, "added": [], "head_idx": head_idx, "quri_idx": head_idx - 3, "qmethod_idx": head_idx - 2,
             "uri": [x.hex() if x is not None else None for x in u], "method": "GET"}
        if anf is not None:
            d.update({"status": 302, "location": loc.hex(), "anf_idx": anf, "malformed": False, "n_loc": 1, "followed": True})
        return d
    meta = {"scheme": "http", "host": "a.test", "port": "", "policy": "never", "orig_headers": [], "explicit_host": False,
            "hops": [hm(0, u0, 4, 8, b"http://b.test/x/y/z"), hm(1, u1, 13, 17, b"../w"), hm(2, u2, 22)], "stopped": None, "method": "GET"}
    return [{"ops": ops, "meta": meta}]


def first_malformed(script):
    for h in script["meta"]["hops"]:
        if h.get("malformed"):
            return h["anf_idx"]
    return None


def project(script, i, line):
    fm = first_malformed(script)
    if fm is not None and i >= fm and not script["meta"].get("origin_form"):
        return None
    return "err" if line.startswith("err") else line


def known_class(script, obs):
    return None


def oracle(script, obs):
    meta = script["meta"]
    fails = []
    if any(o == "panic" for o in obs):
        return ["panic"]
    if meta.get("kind") == "refused-retry":
        for op, o in list(zip(script["ops"], obs))[-meta["n_retry"]:]:
            if op.startswith("write_head") and o.startswith("ok "):
                data = parse_head_write(o)[1]
                if data:
                    rl, hs = R.parse_head(data) if data.endswith(b"\r\n\r\n") else ((b"", b"", b""), [])
                    hosts = [v for k, v in hs if k == b"host"]
                    if hosts != [bytes.fromhex(meta["host"])]:
                        return ["redirected request written after a refused attempt: Host %r, expected %r (head %r)" % (hosts, bytes.fromhex(meta["host"]), data[:80])]
        return []
    for h in meta["hops"]:
        if h["head_idx"] >= len(obs):
            break
        u = tuple(bytes.fromhex(x) if x is not None else None for x in h["uri"])
        if h["hop"] > 0:
            # URI of the new flow
            q = obs[h["quri_idx"]].split(" ")
            got = (unhex(q[0]), unhex(q[1]), unhex(q[2]))
            want = (u[0], u[1], R.pq_of(u))
            if got != want:
                fails.append("hop %d: URI %r, expected %r (RFC 3986 resolution against the current URI)" % (h["hop"], b"%s://%s%s" % got, R.uri_text(u)))
                return fails
            if obs[h["qmethod_idx"]] != h["method"]:
                fails.append("hop %d: method %s expected %s" % (h["hop"], obs[h["qmethod_idx"]], h["method"]))
                return fails
            ho = obs[h["head_idx"]]
            if not ho.startswith("ok "):
                fails.append("hop %d: head not written: %s" % (h["hop"], ho))
                return fails
            rl, hs = R.parse_head(parse_head_write(ho)[1])
            if rl[1] != R.pq_of(u):
                fails.append("hop %d: request line carries %r, expected %r" % (h["hop"], rl[1], R.pq_of(u)))
                return fails
            hosts = [v for k, v in hs if k == b"host"]
            if hosts != [R.host_of(u)]:
                what = "hop %d: Host header %r, expected %r" % (h["hop"], hosts, R.host_of(u))
                if meta["explicit_host"]:
                    fails.append((what, "inherited-host"))
                else:
                    fails.append(what)
                return fails
        if "anf_idx" in h and h["anf_idx"] < len(obs):
            o = obs[h["anf_idx"]]
            if h.get("malformed"):
                if not o.startswith("err"):
                    fails.append("hop %d: malformed Location %r not reported as an error: %s" % (h["hop"], bytes.fromhex(h["location"]), o))
                    return fails
            elif h["followed"] and o != "some":
                fails.append("hop %d: redirect to %r not followed: %s" % (h["hop"], bytes.fromhex(h["location"]), o))
                return fails
            elif not h["followed"] and o != "none":
                fails.append("hop %d: expected not to be followed: %s" % (h["hop"], o))
                return fails
    return fails


def nontrivial(script, obs):
    return script["meta"].get("kind") == "refused-retry" or any(h.get("followed") for h in script["meta"]["hops"])


def known_still_fails(cls, impl):
    import subprocess
    ops = [op_new("GET", "1.1", "http", "a.test", "/", [("host", "a.test")]), "proceed", "write_head #4096", "proceed",
           "raw_try_response %s" % hx(b"HTTP/1.1 302 Found\r\nLocation: http://b.test/y\r\n\r\n"), "proceed", "as_new_flow never", "follow", "proceed", "write_head #4096"]
    out = subprocess.run([impl], input="S 0\n" + "\n".join(ops) + "\nE\n", capture_output=True, text=True, timeout=30).stdout
    return hx(b"host: a.test")[1:] in out.split("\n")[-3]
