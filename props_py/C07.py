"""C07 -- Chunked response decoding yields exactly the payload and never over-reads."""
import itertools
from .lib import *

RULE = ("valid codings: 0..3 chunks (quick: sizes from {1,2,3,15,16,255,256,4095,4096,random<=600}; thorough adds the exhaustive "
        "small scope: every coding with <=3 chunks of sizes 1..3 x extension y/n x 0..2 trailers x leading zero y/n), "
        "upper/lower hex, leading zeros, optional BWS and extension, payload with CR/LF bytes; always followed by the bytes of a "
        "next response; the response preceded by an interim 1xx response, or carrying Connection: close, or answering a request with Connection: close / an HTTP/1.0 request. Schedules: all-at-once, every single cut, all 1-byte arrivals, random cut sets; output sizes {0,1,2,3,4,"
        "large,random}; stop_on_chunk_boundary on/off/toggled; extra reads after the end; exact-fill schedules (output buffers exactly the "
        "chunk sizes, then only empty output buffers: the rest of the coding must still be consumed); a set of codings through the single-call API (Call::read with explicit windows, with and without boundary stop). Size lines longer than 20 bytes are "
        "generated too (known finding class size-line-over-20). non-trivial = RecvBody reached, coding fully consumed and >= 1 "
        "payload byte delivered (or empty payload handled); distinct = distinct op lists")
TRUSTED_BASE = COMMON_TRUSTED_BASE
ASSUMPTIONS = ["64-bit usize", "size lines are ASCII (a size line with bytes >= 0x80 is outside the model of str::from_utf8/trim)"]
EXHAUSTIVE = {"quick": False, "thorough": False}
NEXT = b"HTTP/1.1 200 OK\r\nContent-Length: 1\r\n\r\nZ"
HEAD = render_response_head("1.1", 200, b"OK", [(b"Transfer-Encoding", b"chunked")])
_stats = {"over20": 0, "stop": 0, "schedules": {}, "variant": {}}


def payload(n, rng):
    base = rng.randrange(256)
    b = bytearray(((base + i * 5) & 0xFF) for i in range(n))
    for j in range(0, n, 3):
        if rng.random() < 0.4:
            b[j] = rng.choice([13, 10, 13, 10, 48, 59])
    return bytes(b)


def make_coding(sizes, rng, ext=None, trailers=(), upper=False, zeros=0, bws=b""):
    """Returns (coding bytes, list of chunk payloads, max size-line length)."""
    datas = [payload(n, rng) for n in sizes]
    out = b""
    maxline = 0
    for d in datas:
        h = ("%x" % len(d)).encode()
        if upper:
            h = h.upper()
        line = b"0" * zeros + h + bws + (ext or b"")
        maxline = max(maxline, len(line))
        out += line + b"\r\n" + d + b"\r\n"
    line = b"0" * zeros + b"0" + bws + (ext or b"")
    maxline = max(maxline, len(line))
    out += line + b"\r\n"
    for t in trailers:
        out += t + b"\r\n"
    out += b"\r\n"
    return out, datas, maxline


def schedule_ops(coding_len, rng, kind, caps, stop):
    """Arrival/read operations until the scheduled arrivals are exhausted."""
    ops = []
    total = coding_len + len(NEXT)
    if stop == "on":
        ops.append("stop #1")
    if kind == "all":
        cuts = []
    elif kind == "one":
        cuts = list(range(1, total))
    elif isinstance(kind, tuple):
        cuts = sorted(set(kind))
    else:
        k = rng.randrange(1, 6)
        cuts = sorted(set(rng.randrange(1, total) for _ in range(k)))
    pos = 0
    for c in cuts + [total]:
        ops.append("arrive %s" % num(c - pos))
        pos = c
        cap = rng.choice(caps)
        ops.append("read %s" % num(cap))
        if stop == "toggle" and rng.random() < 0.3:
            ops.append("stop %s" % num(rng.choice([0, 1])))
        if rng.random() < 0.15:
            ops.append("q_boundary")
        if rng.random() < 0.15:
            ops.append("q_can_proceed")
    return ops


def build(sizes, rng, ext, trailers, upper, zeros, bws, kind, caps, stop):
    coding, datas, maxline = make_coding(sizes, rng, ext, trailers, upper, zeros, bws)
    # what surrounds the coding must not matter: an interim 1xx response before the head, Connection: close on either side,
    # an HTTP/1.0 request (the response is HTTP/1.1 and chunked all the same)
    variant = rng.choice(["plain", "plain", "plain", "interim", "interim", "resp-close", "req-close", "req-1.0"])
    _stats["variant"][variant] = _stats["variant"].get(variant, 0) + 1
    interim = rng.choice(INTERIM_HEADS) if variant == "interim" else b""
    head = HEAD if variant != "resp-close" else render_response_head("1.1", 200, b"OK", [(b"Connection", b"close"), (b"Transfer-Encoding", b"chunked")])
    stream = interim + head + coding + NEXT
    req = op_new("GET", "1.0" if variant == "req-1.0" else "1.1", headers=[("connection", "close")] if variant == "req-close" else [])
    ops = [req, "proceed", "write_head #4096", "proceed", "stream %s" % hx(stream), "arrive %s" % num(len(interim) + len(head))] + \
          (["try_response"] if interim else []) + ["try_response", "proceed", "q_body_mode"]
    HEAD_LEN = len(interim) + len(head)
    if variant in ("plain", "interim") and rng.random() < 0.5:
        # any route into RecvResponse (lib.recv_context): other methods, a body sent, the Expect handshake (with a late 100 in front of
        # the response), a second hop, HTTP/1.0 or Connection: close on the request, the head written in segments
        ctx, prefix, info = recv_context(rng)
        _stats["variant"]["ctx:" + info["kind"]] = _stats["variant"].get("ctx:" + info["kind"], 0) + 1
        stream = prefix + interim + head + coding + NEXT
        HEAD_LEN = len(prefix) + len(interim) + len(head)
        ops = ctx + ["stream %s" % hx(stream), "arrive %s" % num(HEAD_LEN)] + (["try_response"] if prefix else []) + \
              (["try_response"] if interim else []) + ["try_response", "proceed", "q_body_mode"]
        if info["http10_request"]:
            variant = "req-1.0"
        elif info["request_close"]:
            variant = "req-close"
    ops += schedule_ops(len(coding), rng, kind, caps, stop)
    # drain: enough large reads to finish whatever the schedule left (boundary stops need one read per chunk)
    for _ in range(len(sizes) + 3):
        ops.append("read #100000")
    ops += ["q_can_proceed", "read #100000", "q_can_proceed", "q_boundary", "proceed", "q_must_close"]
    if maxline > 20:
        _stats["over20"] += 1
    if stop != "off":
        _stats["stop"] += 1
    return {"ops": ops, "meta": {"coding": len(coding), "datas": [d.hex() for d in datas], "maxline": maxline, "head": HEAD_LEN, "variant": variant}}


def build_exact_fill(sizes, rng, ext, trailers, upper, zeros, bws, stop, onebyte):
    """The caller's buffers are exactly as large as the chunk data (e.g. it reads into the rest of a buffer sized to the payload): once
    all data is delivered, reads with an EMPTY output buffer must still consume the rest of the coding (chunk CRLF, last-chunk, trailers,
    final CRLF) and report the end."""
    coding, datas, maxline = make_coding(sizes, rng, ext, trailers, upper, zeros, bws)
    stream = HEAD + coding + NEXT
    ops = [op_new("GET"), "proceed", "write_head #4096", "proceed", "stream %s" % hx(stream), "arrive %s" % num(len(HEAD)),
           "try_response", "proceed", "q_body_mode"]
    if stop:
        ops.append("stop #1")
    ops.append("arrive %s" % num(len(coding) + len(NEXT)))
    if onebyte:
        ops += ["read #1"] * sum(sizes)
    else:
        ops += ["read %s" % num(n) for n in sizes]
    ops += ["read #0"] * (2 * len(sizes) + len(trailers) + 5)
    ops += ["q_can_proceed"]
    must = len(ops) - 1
    ops += ["read #100000", "q_can_proceed", "q_boundary", "proceed", "q_must_close"]
    _stats["exact_fill"] = _stats.get("exact_fill", 0) + 1
    return {"ops": ops, "meta": {"coding": len(coding), "datas": [d.hex() for d in datas], "maxline": maxline, "head": len(HEAD), "must_be_done_at": must}}


SIZES = [1, 2, 3, 15, 16, 255, 256, 4095, 4096]
CAPSETS = [[0, 1, 2, 3, 4, 100000], [1], [2], [3], [4], [100000], [0, 100000], [1, 2, 3, 100000, 100000]]


def gen_random(rng):
    nchunks = rng.choice([0, 1, 1, 2, 2, 3])
    sizes = [rng.choice(SIZES) if rng.random() < 0.75 else rng.randrange(1, 600) for _ in range(nchunks)]
    if sum(sizes) > 6000 and rng.random() < 0.7:
        sizes = [min(s, 300) for s in sizes]
    r = rng.random()
    ext = None if r < 0.55 else rng.choice([b";a", b";a=b", b";x=1;y", b";name=\"q\""]) if r < 0.93 else b";name=abcdefghijklmnopqrstuvwxyz"
    ntr = rng.choice([0, 0, 1, 2])
    trailers = [rng.choice([b"X-T: v", b"Expires: 0", b"a:b", b"Long-Trailer-Name: some value"]) for _ in range(ntr)]
    upper = rng.random() < 0.4
    zeros = rng.choice([0, 0, 0, 1, 2, 3]) if rng.random() < 0.95 else 19
    bws = rng.choice([b"", b"", b"", b" ", b"\t", b"  "])
    kind = rng.choice(["all", "one", "random", "random", "random"])
    total = sum(sizes)
    if kind == "one" and total > 700:
        kind = "random"
    _stats["schedules"][kind] = _stats["schedules"].get(kind, 0) + 1
    caps = rng.choice(CAPSETS) if rng.random() < 0.8 else [rng.randrange(0, 40), 100000]
    stop = rng.choice(["off", "off", "on", "toggle"])
    return build(sizes, rng, ext, trailers, upper, zeros, bws, kind, caps, stop)


def gen_small_scope(rng, fraction):
    """Exhaustive small scope (sampled with probability `fraction`; 1.0 = all)."""
    out = []
    for nch in range(0, 4):
        for sizes in itertools.product([1, 2, 3], repeat=nch):
            for ext in [None, b";e"]:
                for ntr in [0, 1, 2]:
                    for zeros in [0, 1]:
                        trailers = [b"T: v"] * ntr
                        # coding length is deterministic given the shape
                        clen = sum(len("%x" % s) + zeros + len(ext or b"") + 2 + s + 2 for s in sizes) + 1 + zeros + len(ext or b"") + 2 + sum(len(t) + 2 for t in trailers) + 2
                        kinds = ["all", "one"] + [(c,) for c in range(1, clen + 2)]
                        for kind in kinds:
                            for caps in [[0, 1, 100000], [1], [2], [3], [4], [100000]]:
                                for stop in ["off", "on"]:
                                    if fraction < 1.0 and rng.random() >= fraction:
                                        continue
                                    out.append(build(list(sizes), rng, ext, trailers, False, zeros, b"", kind, caps, stop))
    return out


def build_call(sizes, rng, ext, trailers, upper, zeros, stop):
    """The coding through the single-call API (Call::try_response / into_body / read / stop_on_chunk_boundary / is_on_chunk_boundary /
    is_ended) with explicit windows. The whole rest of the stream is offered each time with a large output buffer: without boundary
    stopping one read takes the whole coding, with it one read takes one chunk (size line, data, CRLF) and a last one the tail."""
    coding, datas, maxline = make_coding(sizes, rng, ext, trailers, upper, zeros, b"")
    ops = call_recv_prelude(rng.choice(["GET", "POST"])) + ["raw_try_response %s" % hx(HEAD), "q_is_finished", "proceed", "q_boundary"]
    if stop:
        ops.append("stop #1")
    rest = coding + NEXT
    expect = []
    pos = 0
    if stop:
        for d in datas:
            e = coding.index(b"\r\n", pos)
            nxt = e + 2 + len(d) + 2
            expect.append((len(ops), nxt - pos, d.hex()))
            ops.append("raw_read %s #100000" % hx(rest[pos:]))
            pos = nxt
            ops.append("q_boundary")
    expect.append((len(ops), len(coding) - pos, b"".join(datas).hex() if not stop else ""))
    ops.append("raw_read %s #100000" % hx(rest[pos:]))
    ops.append("q_is_finished")
    expect.append((len(ops), 0, ""))
    ops.append("raw_read %s #100000" % hx(NEXT))
    _stats["call_api"] = _stats.get("call_api", 0) + 1
    return {"ops": ops, "meta": {"coding": len(coding), "datas": [d.hex() for d in datas], "maxline": maxline, "head": len(HEAD), "api": "call",
                                 "expect": expect, "stop": stop}}


def oracle_call(script, obs):
    meta = script["meta"]
    ops = script["ops"]
    if any(o == "panic" for o in obs):
        return ["panic (single-call API)"]
    i = next(k for k, op in enumerate(ops) if op.startswith("raw_try_response"))
    if not obs[i].startswith("some #%d " % meta["head"]) or obs[i + 2] != "call RecvBody":
        return ["single-call API: head / into_body: %s / %s" % (obs[i][:40], obs[i + 2])]
    over20 = meta["maxline"] > 20
    for idx, want_in, want_out in meta["expect"]:
        o = obs[idx]
        if o.startswith("err"):
            if over20:
                return [("single-call API: valid coding with a size line of %d bytes rejected: %s" % (meta["maxline"], o), "size-line-over-20")]
            return ["single-call API: valid coding rejected: %s" % o]
        ci, co, data = parse_counts(o)
        if ci != want_in or data.hex() != want_out:
            return ["single-call API (%s boundary stop): a read consumed %d and produced %d bytes, expected %d and %d" % (
                "with" if meta["stop"] else "without", ci, co, want_in, len(want_out) // 2)]
    k = max(j for j, op in enumerate(ops) if op == "q_is_finished")
    if obs[k] != "true":
        return ["single-call API: the whole coding was consumed but Call::is_ended is %s" % obs[k]]
    return []


def gen_exact_fill(rng, count):
    out = []
    for k in range(count):
        nch = rng.choice([0, 1, 1, 2, 3])
        sizes = [rng.choice([1, 2, 3, 15, 16, 255]) for _ in range(nch)]
        ext = rng.choice([None, None, b";e"])
        trailers = [b"T: v"] * rng.choice([0, 0, 1, 2])
        out.append(build_exact_fill(sizes, rng, ext, trailers, rng.random() < 0.3, rng.choice([0, 0, 1]), b"", False,
                                    sum(sizes) <= 20 and rng.random() < 0.4))
    return out


def generate(rng, tier, mult):
    if tier == "thorough":
        out = gen_small_scope(rng, 0.25)
        out += [gen_random(rng) for _ in range(6000 * mult)]
        # all pairs of cuts for a few codings
        for sizes in [[1], [2, 1], [3, 3, 1]]:
            coding, _, _ = make_coding(sizes, rng)
            n = len(coding) + 2
            for a in range(1, n):
                for b in range(a + 1, n):
                    out.append(build(sizes, rng, None, [], False, 0, b"", (a, b), [100000], "off"))
    else:
        out = gen_small_scope(rng, 0.004 * mult)
        out += [gen_random(rng) for _ in range(900 * mult)]
    out += gen_exact_fill(rng, (400 if tier == "thorough" else 60) * mult)
    for _ in range((600 if tier == "thorough" else 80) * mult):
        nch = rng.choice([0, 1, 2, 3])
        sizes = [rng.choice([1, 2, 3, 15, 16, 255, 256]) for _ in range(nch)]
        out.append(build_call(sizes, rng, rng.choice([None, None, b";e=1"]), [b"T: v"] * rng.choice([0, 0, 1, 2]), rng.random() < 0.3,
                              rng.choice([0, 0, 1]), rng.random() < 0.5))
    return out


def stats():
    return _stats


def corpus():
    rng = __import__("random").Random(7)
    return [build([5], rng, b";name=abcdefghijklmnopqrstuvwxyz", [], False, 0, b"", "all", [100000], "off"),
            build([3, 2], rng, None, [b"X-T: v"], True, 1, b" ", "one", [1], "on")]


def known_class(script, obs):
    return "size-line-over-20" if script["meta"]["maxline"] > 20 else None


def oracle(script, obs):
    if script["meta"].get("api") == "call":
        return oracle_call(script, obs)
    fails = []
    meta = script["meta"]
    datas = [bytes.fromhex(d) for d in meta["datas"]]
    payload_all = b"".join(datas)
    bounds = []
    pos = 0
    for d in datas:
        bounds.append((pos, pos + len(d)))
        pos += len(d)
    ops = script["ops"]
    over20 = meta["maxline"] > 20
    stream = b""
    arrived = 0
    consumed = 0
    delivered = b""
    in_body = False
    stop = False
    errored = False
    for i, op in enumerate(ops):
        if i >= len(obs):
            break
        o = obs[i]
        p = op.split(" ")
        if o == "panic":
            fails.append("op %d (%s): panic" % (i, p[0]))
            break
        if p[0] == "stream":
            stream = unhex(p[1])
        elif p[0] == "arrive":
            arrived = min(len(stream), arrived + unnum(p[1]))
        elif p[0] == "try_response":
            used = parse_response_obs(o)[0]
            consumed += used
        elif p[0] == "proceed" and o == "state RecvBody":
            in_body = True
        elif p[0] == "q_body_mode" and o != "chunked":
            fails.append("body mode %s" % o)
            break
        elif p[0] == "stop":
            stop = unnum(p[1]) != 0
        elif p[0] == "read" and in_body:
            if errored:
                continue
            if o.startswith("err"):
                if over20:
                    return [("valid coding with a size line of %d bytes rejected: %s" % (meta["maxline"], o), "size-line-over-20")]
                fails.append("op %d: valid coding rejected: %s" % (i, o))
                errored = True
                break
            cap = unnum(p[1])
            win = stream[consumed:arrived]
            ci, co, data = parse_counts(o)
            if ci > len(win) or co > cap:
                fails.append("op %d: counts out of bounds (consumed %d of %d offered, produced %d into %d)" % (i, ci, len(win), co, cap))
                break
            start = len(delivered)
            delivered += data
            consumed += ci
            if delivered != payload_all[:len(delivered)]:
                fails.append("op %d: delivered bytes differ from the chunk data at offset %d" % (i, start))
                break
            if consumed > meta["head"] + meta["coding"]:
                fails.append("op %d: over-read: consumed %d bytes beyond the end of the coding" % (i, consumed - meta["head"] - meta["coding"]))
                break
            if stop and co > 0:
                inside = any(a <= start and start + co <= b for a, b in bounds)
                if not inside:
                    fails.append("op %d: with boundary stopping one read returned data of two chunks (offset %d, %d bytes)" % (i, start, co))
                    break
        elif p[0] == "q_can_proceed" and in_body:
            ended = (o == "true")
            done = (consumed == meta["head"] + meta["coding"])
            if i == meta.get("must_be_done_at") and not ended:
                if delivered == payload_all:
                    fails.append("op %d: the whole coding was offered and all chunk data delivered into buffers of exactly the chunk sizes, but reads "
                                 "with an empty output buffer do not consume the rest of the coding (%d of %d consumed, not ended)" % (
                                     i, consumed - meta["head"], meta["coding"]))
                    break
                # (data not yet delivered: a different read granularity; nothing to say)
            if ended != done:
                fails.append("op %d: ended=%s but consumed %d of %d coding bytes" % (i, ended, consumed - meta["head"], meta["coding"]))
                break
            if ended and delivered != payload_all:
                fails.append("op %d: ended with %d of %d payload bytes delivered" % (i, len(delivered), len(payload_all)))
                break
        elif p[0] == "proceed" and in_body and o.startswith("state"):
            in_body = False
        elif p[0] == "q_must_close" and o == "true" and meta.get("variant", "plain") in ("plain", "interim"):
            fails.append("chunked body on HTTP/1.1 marked the connection for closing")
    if not errored and not fails and in_body is False and delivered != payload_all:
        fails.append("left the body state with %d of %d payload bytes" % (len(delivered), len(payload_all)))
    return fails


def nontrivial(script, obs):
    if script["meta"].get("api") == "call":
        return any(o == "call RecvBody" for o in obs)
    reached = any(o == "state RecvBody" for o in obs)
    finished = any(op == "q_can_proceed" and o == "true" for op, o in zip(script["ops"], obs))
    return reached and finished


def known_still_fails(cls, impl):
    import subprocess
    s = corpus()[0]
    text = "S 0\n" + "\n".join(s["ops"]) + "\nE\n"
    out = subprocess.run([impl], input=text, capture_output=True, text=True, timeout=30).stdout.split("\n")
    return any(l.startswith("err") for l in out)
