"""C09 -- Flows follow the documented state graph; readiness query agrees with advancing."""
import os
import subprocess
from .lib import *
from . import C06

RULE = ("model-driven, typestate-pruned enumeration of call histories: for each of 24 request configurations (every standard method, both "
        "versions, with/without Expect, with/without send-body-despite-method, framing headers) the histories over the per-state menu "
        "of permitted calls (writes with small/large buffers, server behaviours: interim 100, partial input, rejection with/without "
        "fields, garbage, every body framing, redirects with/without Location, premature advance attempts, read-only queries) are "
        "extended breadth-first, the model telling which state each history is in; frontier capped by seeded sampling (quick: depth 9, "
        "cap 900 per depth and configuration group; thorough: depth 12, cap 6000). Every history is then replayed on the implementation. "
        "oracle = documented state graph + readiness<=>advancing, computed from the script alone. non-trivial = history reaches at least "
        "RecvResponse; distinct = distinct op lists. Deterministic walks through a followed redirect into the second hop for every valid configuration. The single-call API (Call: write, into_receive, try_response, into_body, read, ...) is enumerated "
        "the same way over 7 configurations (oracle there: no panic; comparison with the model)")
TRUSTED_BASE = COMMON_TRUSTED_BASE
ASSUMPTIONS = ["histories start at Flow::new; at most a handful of added headers (the 64-entry limit of added headers is outside the property)",
               "the enumeration order is driven by the model (DESIGN.md section 7, C09); a state the implementation permits but the model does not shows up as a disagreement"]
_stats = {"depth_counts": {}, "final_states": {}, "premature": 0}

ROOT = os.path.dirname(os.path.dirname(os.path.abspath(__file__)))
MODEL = os.path.join(ROOT, "modelrun", "modelrun")

CONFIGS = [
    ("GET", "1.1", [], False), ("HEAD", "1.1", [], False), ("DELETE", "1.1", [], False), ("OPTIONS", "1.1", [], False),
    ("CONNECT", "1.1", [], False), ("TRACE", "1.1", [], False), ("GET", "1.0", [], False),
    ("POST", "1.1", [], False), ("PUT", "1.1", [("content-length", "2")], False), ("PATCH", "1.1", [("transfer-encoding", "chunked")], False),
    ("POST", "1.0", [("content-length", "2")], False),
    ("POST", "1.1", [("expect", "100-continue")], False), ("PUT", "1.1", [("expect", "100-continue"), ("content-length", "2")], False),
    ("GET", "1.1", [], True), ("DELETE", "1.1", [("content-length", "2")], True), ("GET", "1.1", [("expect", "100-continue")], True),
    # boundary configurations (appended: the corpus refers to configurations by index): an empty sized body, the methods that take a body
    # only on request, the handshake on HTTP/1.0
    ("POST", "1.1", [("content-length", "0")], False), ("TRACE", "1.1", [], True), ("CONNECT", "1.1", [("content-length", "2")], True),
    ("POST", "1.0", [("expect", "100-continue"), ("content-length", "2")], False), ("HEAD", "1.1", [("content-length", "0")], True),
    # a body-less method that declares an empty body (refused by analysis: the flow must stay put, not advance into a panic), and a
    # body-less method with a declared body sent on request (its redirects retain the method)
    ("GET", "1.1", [("content-length", "0")], False), ("DELETE", "1.1", [("content-length", "0")], False), ("GET", "1.1", [("content-length", "2")], True),
]

R100 = b"HTTP/1.1 100 Continue\r\n\r\n"
R403 = b"HTTP/1.1 403 Forbidden\r\n\r\n"
R403F = b"HTTP/1.1 403 Forbidden\r\nContent-Length: 0\r\nConnection: close\r\n\r\n"
RESPONSES = {
    "len0": b"HTTP/1.1 200 OK\r\nContent-Length: 0\r\n\r\n",
    "len3": b"HTTP/1.1 200 OK\r\nContent-Length: 3\r\n\r\n",
    "chunked": b"HTTP/1.1 200 OK\r\nTransfer-Encoding: chunked\r\n\r\n",
    "close": b"HTTP/1.0 200 OK\r\n\r\n",
    "204": b"HTTP/1.1 204 No Content\r\n\r\n",
    "redir": b"HTTP/1.1 302 Found\r\nLocation: /next\r\nContent-Length: 0\r\n\r\n",
    "redir-body": b"HTTP/1.1 301 Moved\r\nLocation: http://b.test/x\r\nContent-Length: 3\r\n\r\n",
    "redir-noloc": b"HTTP/1.1 302 Found\r\nContent-Length: 0\r\n\r\n",
    "307": b"HTTP/1.1 307 Temporary\r\nLocation: /t\r\nContent-Length: 0\r\n\r\n",
    "304": b"HTTP/1.1 304 Not Modified\r\n\r\n",
    "403f": R403F,
    "403": R403,
    "100": R100,
}
BODIES = [b"abc", b"ab", b"3\r\nabc\r\n0\r\n\r\n", b"3\r\nab", b"c\r\n0\r\n\r\n", b"zz\r\n"]

MENU = {
    "Prepare": ["header %s %s" % (hx(b"x-a"), hx(b"b")), "despite", "proceed", "q_method"],
    "SendRequest": ["write_head #100000", "write_head #12", "write_head #40", "q_can_proceed", "proceed", "q_uri", "headers_map"],
    "Await100": ["raw_try100 %s" % hx(R100), "raw_try100 %s" % hx(R403), "raw_try100 %s" % hx(R403F), "raw_try100 %s" % hx(b"HTTP/1.1 1"),
                 "raw_try100 %s" % hx(b"HTTP/1.1 200 OK\r\nX: y\r\n"), "raw_try100 %s" % hx(b"garbage\r\n\r\n"), "raw_try100 x", "q_keep_await", "proceed"],
    "SendBody": ["write_body %s #100" % hx(b"hi"), "write_body %s #3" % hx(b"hi"), "write_body x #100", "write_body x #3", "direct #1", "direct #2",
                 "q_can_proceed", "q_is_chunked", "q_max_input #100", "proceed"],
    "RecvResponse": ["raw_try_response %s" % hx(v) for v in RESPONSES.values()] + ["raw_try_response %s" % hx(b"HTTP/1.1 200 OK\r\nContent-Le"),
                     "raw_try_response %s" % hx(b"nonsense\r\n\r\n"), "q_can_proceed", "proceed"],
    "RecvBody": ["raw_read %s #100" % hx(b) for b in BODIES] + ["raw_read %s #1" % hx(b"abc"), "raw_read x #100", "stop #1", "q_boundary",
                 "q_body_mode", "q_can_proceed", "proceed"],
    "Redirect": ["q_status", "q_must_close", "q_close_reason", "as_new_flow never", "as_new_flow same_host", "follow", "proceed"],
    "Cleanup": ["q_must_close", "q_close_reason"],
}
# operations that are worth taking at most a few times per history (keeps the enumeration meaningful)
QUERY_PREFIX = "q_"


def run_model(scripts):
    text = render(scripts)
    p = subprocess.run([MODEL], input=text, capture_output=True, text=True, timeout=600)
    res = []
    cur = None
    for line in p.stdout.split("\n"):
        if line.startswith("S "):
            cur = []
        elif line == "E":
            res.append(cur)
            cur = None
        elif cur is not None and line:
            cur.append(line)
    return res


def render(scripts):
    out = []
    for i, ops in enumerate(scripts):
        out.append("S %d" % i)
        out.extend(ops)
        out.append("E")
    return "\n".join(out) + "\n"


def enumerate_histories(rng, depth, cap):
    """Breadth-first, model-driven. Returns list of (config index, ops).
    The caller re-presents unconsumed bytes: after a try_read_100 that consumed nothing, the next window offered to
    try_read_100 extends the previous one (the server's byte stream does not change behind the caller's back)."""
    results = []
    for ci, (method, version, headers, despite) in enumerate(CONFIGS):
        first = op_new(method, version, "http", "a.test", "/p", headers)
        frontier = [([first] + (["despite"] if despite else []), "Prepare", None)]
        for d in range(depth):
            cands = []
            for ops, tag, last100 in frontier:
                menu = MENU.get(tag, [])
                for op in menu:
                    # at most two consecutive queries, at most 3 identical ops in a row
                    if op.startswith(QUERY_PREFIX) and len(ops) >= 2 and ops[-1].startswith(QUERY_PREFIX) and ops[-2].startswith(QUERY_PREFIX):
                        continue
                    if len(ops) >= 3 and ops[-1] == op and ops[-2] == op and ops[-3] == op:
                        continue
                    if op.startswith("raw_try100") and last100 is not None and not unhex(op.split(" ")[1]).startswith(last100):
                        continue
                    cands.append((ops + [op], tag, last100))
            if len(cands) > cap:
                cands = rng.sample(cands, cap)
            obs = run_model([c[0] for c in cands])
            nxt = []
            for (ops, tag, last100), o in zip(cands, obs):
                last = o[-1] if o else "np"
                if last in ("np", "badop"):
                    continue
                newtag = tag
                if last.startswith("state "):
                    newtag = last.split(" ")[1]
                    last100 = None
                elif ops[-1] == "follow" and last == "ok":
                    newtag = "Prepare"
                if ops[-1].startswith("raw_try100"):
                    last100 = unhex(ops[-1].split(" ")[1]) if last == "ok #0" else None
                if last == "panic":
                    results.append((ci, ops))       # keep: the implementation must be compared on it; do not extend
                    continue
                nxt.append((ops, newtag, last100))
            key = str(d + 1)
            _stats["depth_counts"][key] = _stats["depth_counts"].get(key, 0) + len(nxt)
            results.extend((ci, ops) for ops, _, _ in nxt)
            frontier = nxt
        # premature advance attempts at the end of a sample of histories
        for ops, tag, _ in rng.sample(frontier, min(len(frontier), cap // 10 + 1)):
            if tag in ("SendRequest", "SendBody", "RecvResponse", "RecvBody"):
                results.append((ci, ops + ["q_can_proceed", "premature"]))
                _stats["premature"] += 1
    return results


# ---- the single-call API (Call::without_body / with_body ... into_receive, try_response, into_body, read): the same model-driven
# enumeration over its own menu. The state graph of the statement is about Flow; for Call objects the oracle asks for no panic and the
# comparison with the model does the rest.
CALL_CONFIGS = [
    ("call_without", "GET", "1.1", []), ("call_without", "HEAD", "1.1", []), ("call_without", "POST", "1.1", [("content-length", "2")]),
    ("call_with", "POST", "1.1", []), ("call_with", "PUT", "1.1", [("content-length", "2")]), ("call_with", "POST", "1.0", [("content-length", "0")]),
    ("call_with", "GET", "1.1", []),
]
CALL_MENU = {
    "CallWithout": ["write_head #100000", "write_head #12", "q_is_finished", "proceed"],
    "CallWith": ["write_body x #100000", "write_body %s #100" % hx(b"hi"), "write_body x #3", "write_body %s #3" % hx(b"hi"), "q_is_finished", "proceed"],
    "CallRecvResponse": ["raw_try_response %s" % hx(v) for k, v in RESPONSES.items() if k in ("len0", "len3", "chunked", "close", "204", "redir-body", "100")]
                        + ["raw_try_response %s" % hx(b"HTTP/1.1 200 OK\r\nContent-Le"), "raw_try_response %s" % hx(b"nonsense\r\n\r\n"), "q_is_finished", "proceed"],
    "CallRecvBody": ["raw_read %s #100" % hx(b) for b in BODIES] + ["raw_read %s #1" % hx(b"abc"), "raw_read x #100", "stop #1", "q_boundary", "q_is_finished", "proceed"],
}


def enumerate_call_histories(rng, depth, cap):
    results = []
    for ci, (ctor, method, version, headers) in enumerate(CALL_CONFIGS):
        first = "%s %s" % (ctor, request_args(method, version, "http", "a.test", "/p", headers))
        frontier = [([first], "CallWithout" if ctor == "call_without" else "CallWith")]
        for d in range(depth):
            cands = []
            for ops, tag in frontier:
                for op in CALL_MENU.get(tag, []):
                    if op.startswith(QUERY_PREFIX) and len(ops) >= 2 and ops[-1].startswith(QUERY_PREFIX):
                        continue
                    if len(ops) >= 3 and ops[-1] == op and ops[-2] == op:
                        continue
                    cands.append((ops + [op], tag))
            if len(cands) > cap:
                cands = rng.sample(cands, cap)
            obs = run_model([c[0] for c in cands])
            nxt = []
            for (ops, tag), o in zip(cands, obs):
                last = o[-1] if o else "np"
                if last in ("np", "badop"):
                    continue
                if last == "panic":
                    results.append((ci, ops))
                    continue
                if last.startswith("call "):
                    tag = "Call" + last.split(" ")[1]
                elif ops[-1] == "proceed":
                    results.append((ci, ops))       # the call is gone (an error, or "no body"): keep the history, do not extend it
                    continue
                nxt.append((ops, tag))
            results.extend((ci, ops) for ops, _ in nxt)
            frontier = nxt
    return results


def second_hop_walks():
    """Deterministic walks through a redirect into the second hop (beyond the depth of the quick enumeration): every configuration
    whose request is valid, answered by a redirect, followed, and the new flow driven to its response."""
    out = []
    for ci, (method, version, headers, despite) in enumerate(CONFIGS):
        if any(k == "transfer-encoding" for k, v in headers) or (not despite and method not in BODY_METHODS and any(k == "content-length" for k, v in headers)):
            continue
        expect = any(k == "expect" for k, v in headers)
        body_due = method in BODY_METHODS or despite
        for rk in ("redir", "redir-body", "307"):
            ops = [op_new(method, version, "http", "a.test", "/p", headers)] + (["despite"] if despite else []) + ["proceed", "write_head #100000", "proceed"]
            if body_due and expect:
                ops += ["raw_try100 %s" % hx(R100), "proceed"]
            if body_due:
                ops += ["write_body %s #100" % hx(b"hi"), "write_body x #100", "q_can_proceed", "proceed"]
            ops += ["raw_try_response %s" % hx(RESPONSES[rk]), "proceed"]
            if rk == "redir-body" and method != "HEAD":
                ops += ["raw_read %s #100" % hx(b"abc"), "proceed"]
            ops += ["as_new_flow never", "follow", "q_method", "proceed", "write_head #100000", "q_can_proceed", "proceed",
                    "raw_try_response %s" % hx(RESPONSES["len0"]), "proceed", "q_must_close"]
            out.append({"ops": ops, "meta": {"config": ci, "walk": True}})
    return out


def generate(rng, tier, mult):
    depth, cap = (9, 900) if tier == "quick" else (12, 6000)
    hist = enumerate_histories(rng, depth, cap * mult)
    out = []
    for ci, ops in hist:
        out.append({"ops": ops, "meta": {"config": ci}})
    cdepth, ccap = (7, 150) if tier == "quick" else (9, 1500)
    for ci, ops in enumerate_call_histories(rng, cdepth, ccap * mult):
        out.append({"ops": ops, "meta": {"config": ci, "api": "call"}})
    _stats["call_api_histories"] = sum(1 for s in out if s["meta"].get("api") == "call")
    out += second_hop_walks()
    return out


def stats():
    return _stats


def corpus():
    def s(ci, extra):
        method, version, headers, despite = CONFIGS[ci]
        return {"ops": [op_new(method, version, "http", "a.test", "/p", headers)] + (["despite"] if despite else []) + extra, "meta": {"config": ci}}
    return [
        # F2: refusal edge usable
        s(11, ["proceed", "write_head #100000", "proceed", "raw_try100 %s" % hx(R403), "proceed", "raw_try_response %s" % hx(R403), "proceed", "q_must_close"]),
        # F3: despite without framing header
        s(13, ["proceed", "write_head #100000", "proceed", "write_body %s #100" % hx(b"hi"), "write_body x #100", "q_can_proceed", "proceed"]),
        # second as_new_flow on a first-hop flow: an error since the repair of F19 (the placeholder request has no absolute URI)
        s(0, ["proceed", "write_head #100000", "proceed", "raw_try_response %s" % hx(RESPONSES["redir"]), "proceed", "as_new_flow never", "as_new_flow never"]),
        # F18 known: second as_new_flow on a flow that was itself created by following a redirect
        s(0, ["proceed", "write_head #100000", "proceed", "raw_try_response %s" % hx(RESPONSES["redir"]), "proceed", "as_new_flow never", "follow",
              "proceed", "write_head #100000", "proceed", "raw_try_response %s" % hx(RESPONSES["redir"]), "proceed", "as_new_flow never", "as_new_flow never"]),
        # F19 (repaired): origin-form request, redirect followed
        {"ops": ["new " + request_args("GET", "1.1", "", "", "/x", [(b"host", b"a.test")]), "proceed", "write_head #100000", "proceed",
                 "raw_try_response %s" % hx(RESPONSES["redir"]), "proceed", "as_new_flow never", "proceed", "q_must_close"], "meta": {"config": 0}},
    ]


def known_class(script, obs):
    ops = script["ops"]
    first = None
    for i, op in enumerate(ops):
        if op.startswith("as_new_flow") and i < len(obs) and obs[i] == "some":
            first = i
            break
    if first is not None and any(op.startswith("as_new_flow") for op in ops[first + 1:]):
        # only while still on the same Redirect flow (no follow in between)
        rest = ops[first + 1:]
        for op in rest:
            if op == "follow":
                break
            if op.startswith("as_new_flow"):
                return "as-new-flow-twice"
    return None


def oracle(script, obs):
    if script["meta"].get("api") == "call":
        for i, o in enumerate(obs):
            if o == "panic":
                return ["single-call API: op %d (%s) panics" % (i, script["ops"][i].split(" ")[0])]
        return []
    method, version, headers, despite0 = CONFIGS[script["meta"]["config"]]
    ops = script["ops"]
    fails = []
    tag = None
    despite = False
    expect = any(k == "expect" for k, v in headers)
    cur_method = method
    refused = False
    last_can = None          # last q_can_proceed answer with no state-changing op since
    resp_key = None          # which response head was returned
    resp_bytes = None
    took_flow = False
    n_some = 0
    sb_touched = False
    # a Content-Length body: bytes accounted for so far, and whether the body must by now be reported finished (usable SendBody state:
    # once everything is sent and the end signalled, the flow must be able to leave the state)
    sized = None
    if not any(k == "transfer-encoding" for k, v in headers):
        for k, v in headers:
            if k == "content-length":
                sized = int(v)
    accounted = 0
    must_finish = False
    hops = 0
    for i, (op, o) in enumerate(zip(ops, obs)):
        p = op.split(" ")
        if o == "panic":
            if p[0] == "as_new_flow" and took_flow:
                return [("second as_new_flow() on the same Redirect flow panics", "as-new-flow-twice")]
            return ["op %d (%s) in state %s: panic" % (i, p[0], tag)]
        if p[0] == "new":
            tag = "Prepare"
            continue
        if o == "np":
            continue
        if p[0] == "despite":
            despite = True
        if p[0] == "q_can_proceed":
            last_can = (o == "true")
            if tag == "SendBody" and must_finish and not last_can:
                return ["op %d: all %d body bytes are accounted for and the end was signalled, but SendBody does not report the body finished "
                        "(the flow can never leave the state)" % (i, sized)]
            if tag == "SendBody" and not sb_touched and last_can:
                return ["op %d: SendBody entered with the body already reported finished (the flow that advanced is not usable: "
                        "nothing was written and the end was not signalled)" % i]
            continue
        if p[0].startswith("q_"):
            continue
        if tag == "SendBody" and p[0] in ("write_body", "write_sum", "write_from", "direct"):
            if not sb_touched and p[0] == "write_body" and len(unhex(p[1])) > 0 and o.startswith("err BodyContentAfterFinish"):
                return ["op %d: first body write in SendBody refused as 'after finish' (the flow that advanced is not usable)" % i]
            sb_touched = True
            if sized is not None:
                if p[0] == "write_body" and o.startswith("ok "):
                    accounted += unnum(o.split(" ")[1])
                    if accounted == sized and (sized > 0 or len(unhex(p[1])) == 0):
                        must_finish = True
                elif p[0] == "direct" and o == "ok":
                    accounted += unnum(p[1])
                    if accounted == sized and sized > 0:
                        must_finish = True
        if p[0] == "raw_try100":
            data = unhex(p[1])
            if o == "ok #0" and (data.startswith(b"HTTP/1.1 403") or data.startswith(b"HTTP/1.1 200 OK\r\nX: y\r\n")):
                refused = True
        if p[0] == "raw_try_response" and o.startswith("some"):
            # a second head on the same flow (the caller ignoring the first) makes the prescription ambiguous: not checked
            resp_bytes = unhex(p[1]) if n_some == 0 else None
            n_some += 1
        if p[0] == "as_new_flow" and o == "some":
            took_flow = True
        if p[0] == "write_head" and hops > 0 and tag == "SendRequest" and o.startswith("err") and not o.startswith("err OutputOverflow") \
                and not any(k == "transfer-encoding" for k, v in headers):
            return ["op %d: the flow handed out by as_new_flow (hop %d) cannot write its request head: %s -- it is not usable in its new state" % (i, hops, o)]
        if p[0] == "follow" and o == "ok":
            hops += 1
            tag = "Prepare"
            took_flow = False
            if cur_method not in ("GET", "HEAD"):
                cur_method = "GET" if resp_bytes is None or not resp_bytes.startswith(b"HTTP/1.1 307") else cur_method
            despite = False
            refused = False
            sized = None
            must_finish = False
            resp_bytes = None
            n_some = 0
            last_can = None
            continue
        if p[0] == "premature":
            if last_can is not None and (o == "none") != (not last_can):
                return ["op %d: readiness query said %s but advancing returned %s" % (i, last_can, o)]
            continue
        if p[0] == "proceed":
            body_due = cur_method in BODY_METHODS or despite
            want = None
            if tag == "Prepare":
                want = "SendRequest"
            elif tag == "SendRequest":
                if last_can is not None:
                    if last_can and o == "stay":
                        return ["op %d: ready to proceed but advancing failed" % i]
                    if not last_can and o != "stay":
                        return ["op %d: not ready but advancing gave %s" % (i, o)]
                if o != "stay":
                    want = ("Await100" if expect else "SendBody") if body_due else "RecvResponse"
            elif tag == "Await100":
                want = "RecvResponse" if refused else "SendBody"
            elif tag == "SendBody":
                if last_can is not None and last_can != (o != "stay"):
                    return ["op %d: readiness %s but advancing gave %s" % (i, last_can, o)]
                if must_finish and o == "stay":
                    return ["op %d: all %d body bytes are accounted for and the end was signalled, but proceed() does not leave SendBody" % (i, sized)]
                if o != "stay":
                    want = "RecvResponse"
            elif tag == "RecvResponse":
                if last_can is not None and last_can != (o != "stay"):
                    return ["op %d: readiness %s but advancing gave %s" % (i, last_can, o)]
                if o != "stay" and resp_bytes is not None:
                    want = successor_after_head(cur_method, resp_bytes)
            elif tag == "RecvBody":
                if last_can is not None and last_can != (o != "stay"):
                    return ["op %d: readiness %s but advancing gave %s" % (i, last_can, o)]
                if o != "stay" and resp_bytes is not None:
                    st = int(resp_bytes[9:12])
                    want = "Redirect" if (300 <= st <= 399 and st != 304) else "Cleanup"
            elif tag == "Redirect":
                want = "Cleanup"
            if o.startswith("err"):
                return ["op %d: proceed in state %s failed: %s" % (i, tag, o)]
            if want is not None and o != "state " + want:
                return ["op %d: from %s the graph prescribes %s, got %s" % (i, tag, want, o)]
            if o.startswith("state "):
                tag = o.split(" ")[1]
                if tag == "SendBody":
                    sb_touched = False
            last_can = None
            continue
        # any other state-affecting op invalidates the remembered readiness
        last_can = None
    return fails


def successor_after_head(method, head):
    version = head[5:8].decode()
    status = int(head[9:12])
    cl = te = None
    for line in head.split(b"\r\n")[1:]:
        if line.lower().startswith(b"content-length:"):
            cl = line.split(b":", 1)[1].strip()
        if line.lower().startswith(b"transfer-encoding:"):
            te = line.split(b":", 1)[1].strip()
    exp = C06.expected(method, status, version == "1.1", cl, te)
    return exp[1] if exp[0] != "err" else None


def nontrivial(script, obs):
    return any(o in ("state RecvResponse", "call RecvResponse") for o in obs)
