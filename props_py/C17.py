"""C17 -- Invalid requests are rejected before a single byte is emitted."""
import itertools
from .lib import *

RULE = ("exhaustive product of the quantifier: versions {0.9,1.0,1.1,2,3} x 9 standard methods x Host {none, one, two original, "
        "non-text, one original + one added} x Content-Length {none,'5','0',two,'-1','abc','+5',non-text, 2^64} x Transfer-Encoding "
        "{none, chunked, non-text, two fields chunked+gzip / gzip+chunked} x send-body-despite-method x API {flow, flow with Flow::headers_map calls interleaved, Call::without_body, Call::with_body}; every script writes "
        "twice (tiny -- in a sub-product: empty -- and large buffer), asks readiness and tries to advance. both tiers enumerate the whole product. "
        "non-trivial = the first write was refused, or accepted with bytes emitted; distinct = distinct configurations")
TRUSTED_BASE = COMMON_TRUSTED_BASE
ASSUMPTIONS = ["absolute-URI requests with a host (requests without a host are outside the property)"]
EXHAUSTIVE = {"quick": True, "thorough": True}
_stats = {"invalid": 0, "valid": 0}

VERSIONS = ["0.9", "1.0", "1.1", "2", "3"]
HOSTS = ["none", "one", "two", "nontext", "orig+added"]
CLS = ["none", "5", "0", "two", "-1", "abc", "+5", "nontext", "huge"]
TES = ["none", "chunked", "nontext", "chunked+gzip", "gzip+chunked"]
APIS = ["flow", "without", "with"]


def config_invalid(version, method, host, cl, te, despite, api):
    if version not in ("1.0", "1.1"):
        return True
    if version == "1.0" and method not in HTTP10_METHODS:
        return True
    if host in ("two", "orig+added", "nontext"):
        return True
    if cl in ("two", "-1", "abc", "+5", "nontext", "huge"):
        return True
    framing = (cl in ("5", "0")) or te in ("chunked", "chunked+gzip", "gzip+chunked")
    takes_body = method in BODY_METHODS
    if api == "flow":
        if despite:
            return False
        has_body = framing or takes_body  # a flow for a body method always sends one (default chunked)
        return has_body and not takes_body
    if api == "with":
        return not takes_body           # with-body constructor on a method that takes none
    if api == "without":
        if takes_body and not framing:
            return True                  # body-taking method without a body
        if not takes_body and framing:
            return True
        return False
    return False


def build(version, method, host, cl, te, despite, api, hm=False, zero_first=False):
    headers = []
    added = []
    if host == "one":
        headers.append((b"Host", b"h.test"))
    elif host == "two":
        headers += [(b"Host", b"h.test"), (b"Host", b"i.test")]
    elif host == "nontext":
        headers.append((b"Host", b"h\xff.test"))
    elif host == "orig+added":
        headers.append((b"Host", b"h.test"))
        added.append((b"Host", b"j.test"))
    if cl == "two":
        headers += [(b"Content-Length", b"5"), (b"Content-Length", b"5")]
    elif cl == "nontext":
        headers.append((b"Content-Length", b"\xff5"))
    elif cl == "huge":
        headers.append((b"Content-Length", b"18446744073709551616"))
    elif cl != "none":
        headers.append((b"Content-Length", cl.encode()))
    if te == "chunked":
        headers.append((b"Transfer-Encoding", b"chunked"))
    elif te == "nontext":
        headers.append((b"Transfer-Encoding", b"chunked\x80"))
    elif te == "chunked+gzip":
        headers += [(b"Transfer-Encoding", b"chunked"), (b"Transfer-Encoding", b"gzip")]      # two fields: any of them saying chunked means a body
    elif te == "gzip+chunked":
        headers += [(b"Transfer-Encoding", b"gzip"), (b"Transfer-Encoding", b"chunked")]
    args = request_args(method, version, "http", "a.test", "/p", headers)
    if api == "flow":
        ops = ["new " + args]
        for k, v in added:
            ops.append("header %s %s" % (hx(k), hx(v)))
        if despite:
            ops.append("despite")
        if hm:
            # Flow<SendRequest>::headers_map is the other entry point that runs the analysis: it must refuse what a write refuses
            ops += ["proceed", "headers_map", "write_head #7", "q_can_proceed", "headers_map", "write_head #4096", "q_can_proceed", "write_head #4096",
                    "headers_map", "proceed"]
        else:
            ops += ["proceed", "write_head #0" if zero_first else "write_head #7", "q_can_proceed", "write_head #4096", "q_can_proceed", "write_head #4096", "proceed"]
    elif api == "without":
        ops = ["call_without " + args, "write_head #7", "q_is_finished", "write_head #4096", "q_is_finished", "write_head #4096"]
    else:
        ops = ["call_with " + args, "write_body x #7", "q_is_finished", "write_body x #4096", "q_is_finished", "write_body x #4096"]
    return {"ops": ops, "meta": {"config": [version, method, host, cl, te, despite, api], "hm": hm}}


def generate(rng, tier, mult):
    out = []
    for version, method, host, cl, te, despite, api in itertools.product(VERSIONS, METHODS, HOSTS, CLS, TES, [False, True], APIS):
        if api != "flow" and (despite or host == "orig+added"):
            continue
        out.append(build(version, method, host, cl, te, despite, api))
        if api == "flow":
            out.append(build(version, method, host, cl, te, despite, api, hm=True))
            if te in ("none", "chunked") and cl in ("none", "5", "abc", "two"):
                out.append(build(version, method, host, cl, te, despite, api, zero_first=True))   # the first write gets an EMPTY output buffer
    return out


def stats():
    return _stats


def written(o):
    """bytes emitted by a write_head / write_body observation (None if error)"""
    if not o.startswith("ok "):
        return None
    p = o.split(" ")
    return unhex(p[-1])


def oracle(script, obs):
    cfg = script["meta"]["config"]
    invalid = config_invalid(*cfg)
    _stats["invalid" if invalid else "valid"] += 1
    fails = []
    api = cfg[6]
    ops = script["ops"]
    if any(o == "panic" for o in obs):
        return ["panic in %s" % cfg]
    writes = [(op, o) for op, o in zip(ops, obs) if op.startswith("write_")]
    queries = [(op, o) for op, o in zip(ops, obs) if op.startswith("q_")]
    maps = [(op, o) for op, o in zip(ops, obs) if op == "headers_map"]
    for op, o in maps:
        if invalid and not o.startswith("err"):
            return ["invalid request %s: headers_map did not refuse it: %s" % (cfg, o[:60])]
        if not invalid and not o.startswith("#"):
            return ["valid request %s: headers_map failed: %s" % (cfg, o[:60])]
    if invalid:
        for op, o in writes:
            if not o.startswith("err"):
                fails.append("invalid request %s: write not refused: %s" % (cfg, o[:80]))
                return fails
        for op, o in queries:
            if o == "true" and not (api == "with"):
                fails.append("invalid request %s became ready to advance" % cfg)
                return fails
        if api == "flow" and obs[-1] != "stay":
            fails.append("invalid request %s advanced: %s" % (cfg, obs[-1]))
    else:
        # accepted: the tiny buffer may overflow (C02's business), the large one must succeed and emit the head
        first = writes[0][1]
        if first.startswith("err") and not first.startswith("err OutputOverflow"):
            fails.append("valid request %s refused: %s" % (cfg, first))
            return fails
        second = writes[1][1]
        if not second.startswith("ok "):
            fails.append("valid request %s: write into a large buffer failed: %s" % (cfg, second))
            return fails
        data = (written(first) or b"") + written(second)
        if not data.startswith(cfg[1].encode() + b" /p HTTP/" + cfg[0].encode() + b"\r\n") or not data.endswith(b"\r\n\r\n"):
            fails.append("valid request %s: head not emitted: %r" % (cfg, data[:60]))
    return fails


def nontrivial(script, obs):
    return any(op.startswith("write_") and (o.startswith("err") or (o.startswith("ok ") and len(o.split(" ")[-1]) > 1)) for op, o in zip(script["ops"], obs))
