"""C20 -- Standalone head parsers round-trip well-formed heads and honour their limits."""
from .lib import *

RULE = ("generated well-formed response and request heads (methods incl. extension tokens, targets, versions, statuses 100..999, "
        "0..N+2 fields for limits N in {0,1,4,128}; a sixth of the response heads are 3xx with an early Location field) followed by arbitrary bytes; parser::try_parse_response::<N>, "
        "try_parse_partial_response::<N>, try_parse_request::<N> on every prefix length (heads up to 400 bytes; larger heads: "
        "prefixes near line ends + random) and on head ++ rest. non-trivial = the complete head was parsed (or rejected for the "
        "limit) and at least one strict prefix was offered; distinct = distinct (head, N)")
TRUSTED_BASE = COMMON_TRUSTED_BASE
ASSUMPTIONS = ["httparse is modelled by hand (scalar semantics)"]
_stats = {"limits": {}, "kinds": {}, "prefixes": 0}
REST = [b"", b"body", b"GET / HTTP/1.1\r\n\r\n", b"\r\n", b"\x00\xff"]


def cuts_for(n, line_ends, rng):
    if n <= 400:
        return list(range(0, n))
    s = set([0, 1, 3, 7, 8, 9])
    for e in line_ends:
        for d in range(-2, 2):
            if 0 <= e + d < n:
                s.add(e + d)
    for _ in range(40):
        s.add(rng.randrange(0, n))
    s.add(n - 1)
    return sorted(s)


def gen_one(rng, kind=None, limit=None, redirect=False):
    limit = limit if limit is not None else rng.choice([0, 1, 4, 4, 128])
    kind = kind or rng.choice(["response", "response", "request"])
    _stats["limits"][str(limit)] = _stats["limits"].get(str(limit), 0) + 1
    _stats["kinds"][kind] = _stats["kinds"].get(kind, 0) + 1
    if limit == 128:
        nfields = rng.choice([0, 5, 127, 128, 129, 130])
    else:
        nfields = rng.randrange(0, limit + 3)
    if kind == "response" and redirect:
        # a 3xx head whose Location field comes early: every cut inside the Location line is offered (the partial parser must
        # not report a field it has seen only part of)
        nfields = min(nfields, max(0, limit - 1)) if limit > 0 else 0
        loc = [(rng.choice([b"Location", b"location"]), rng.choice([b"http://b.test/next/page?x=1", b"/n", b"../up"]))] if limit > 0 else []
        h = gen_response_head(rng, nfields, status=rng.choice([300, 301, 302, 303, 307, 308]), extra_fields=loc)
    elif kind == "response":
        h = gen_response_head(rng, nfields, status=rng.choice([100, 200, 302, 404, 999, rng.randrange(100, 1000)]))
    else:
        h = gen_request_head(rng, nfields)
    head = h["bytes"]
    n = len(head)
    rest = rng.choice(REST)
    ops = []
    cuts = cuts_for(n, h["line_ends"], rng)
    _stats["prefixes"] += len(cuts)
    for c in cuts:
        if kind == "response":
            ops.append("parse_response %s %s" % (num(limit), hx(head[:c])))
            ops.append("parse_partial %s %s" % (num(limit), hx(head[:c])))
        else:
            ops.append("parse_request %s %s" % (num(limit), hx(head[:c])))
    full = head + rest
    if kind == "response":
        ops.append("parse_response %s %s" % (num(limit), hx(full)))
        ops.append("parse_partial %s %s" % (num(limit), hx(full)))
    else:
        ops.append("parse_request %s %s" % (num(limit), hx(full)))
    meta = {"kind": kind, "limit": limit, "head": n, "version": h["version"], "nfields": len(h["fields"]),
            "fields": [[k.hex(), v.hex()] for k, v in h["fields"]],
            "expected": [[k.hex(), v.hex()] for k, v in h["expected"]], "line_ends": h["line_ends"]}
    if kind == "response":
        meta["status"] = h["status"]
    else:
        meta["method"] = h["method"].hex()
    return {"ops": ops, "meta": meta}


def generate(rng, tier, mult):
    count = (260 if tier == "quick" else 4000) * mult
    return [gen_one(rng) for _ in range(count)] + [gen_one(rng, kind="response", redirect=True) for _ in range(count // 6)]


def stats():
    return _stats


def project(script, i, line):
    # C20 distinguishes the too-many-headers error from every other error
    if line.startswith("err HttpParseTooManyHeaders"):
        return line
    return "err" if line.startswith("err") else line


def partial_expected(fields_prefix):
    """What the partial parser may report for a list of complete fields: grouped, up to the first empty value."""
    out = []
    for k, v in fields_prefix:
        if v == b"":
            break
        out.append((k, v))
    return group_headers(out)


def oracle(script, obs):
    meta = script["meta"]
    n = meta["head"]
    limit = meta["limit"]
    fields = [(bytes.fromhex(k), bytes.fromhex(v)) for k, v in meta["fields"]]
    expected = [(bytes.fromhex(k), bytes.fromhex(v)) for k, v in meta["expected"]]
    within = meta["nfields"] <= limit
    fails = []
    for i, (op, o) in enumerate(zip(script["ops"], obs)):
        p = op.split(" ")
        if o == "panic":
            return ["op %d: panic" % i]
        data = unhex(p[2])
        k = len(data)
        complete_fields = sum(1 for e in meta["line_ends"][1:] if e <= k)
        if p[0] in ("parse_response", "parse_request"):
            if k < n:
                if within and o != "none":
                    fails.append("%s::<%d> on strict prefix %d of %d gave %s" % (p[0], limit, k, n, o[:60]))
                    return fails
                if not within and o.startswith("some"):
                    fails.append("%s::<%d> returned a head from a strict prefix" % (p[0], limit))
                    return fails
            else:
                if within:
                    if not o.startswith("some "):
                        fails.append("%s::<%d> on the complete head gave %s" % (p[0], limit, o[:60]))
                        return fails
                    q = o.split(" ")
                    used = unnum(q[1])
                    if used != n:
                        fails.append("%s consumed %d, head is %d" % (p[0], used, n))
                    if p[0] == "parse_response":
                        _, ver, status, hs = parse_response_obs(o)
                        if ver != meta["version"] or status != meta["status"]:
                            fails.append("version/status mismatch: %s" % o[:60])
                    else:
                        method = unhex(q[2])
                        ver = unnum(q[3])
                        hs = parse_headers(q[4:])
                        if method.hex() != meta["method"] or ver != meta["version"]:
                            fails.append("method/version mismatch: %s" % o[:60])
                    if hs != expected:
                        fails.append("%s: fields differ (got %d, expected %d)" % (p[0], len(hs), len(expected)))
                    if fails:
                        return fails
                else:
                    if not o.startswith("err HttpParseTooManyHeaders"):
                        fails.append("%s::<%d> on a head with %d fields gave %s" % (p[0], limit, meta["nfields"], o[:60]))
                        return fails
        elif p[0] == "parse_partial":
            if within or complete_fields <= limit:
                if o.startswith("err"):
                    fails.append("partial parser failed on prefix %d of a well-formed head within the limit: %s" % (k, o))
                    return fails
            if o.startswith("some "):
                q = o.split(" ")
                ver, status = unnum(q[1]), unnum(q[2])
                hs = parse_headers(q[3:])
                if ver != meta["version"] or status != meta["status"]:
                    fails.append("partial parser: version/status mismatch: %s" % o[:60])
                    return fails
                # every reported field must be a complete field line of the input, in order
                allowed = fields[:complete_fields]
                ok = False
                for m in range(len(allowed) + 1):
                    if hs == partial_expected(allowed[:m]) or hs == group_headers(allowed[:m]):
                        ok = True
                        break
                if not ok:
                    fails.append("partial parser reported a field that is not completely present in its %d-byte input (%d complete lines): %s" % (k, complete_fields, o[:120]))
                    return fails
    return fails


def nontrivial(script, obs):
    return len(obs) >= 2 and (obs[-1].startswith("some") or obs[-1].startswith("err") or obs[-2].startswith("some"))
