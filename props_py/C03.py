"""C03 -- Chunked request body is a valid chunked encoding of exactly the consumed input."""
from .lib import *

RULE = ("scripts: POST/PUT/PATCH (default chunked, or explicit transfer-encoding: chunked, or body-less method with "
        "send_body_despite_method) -> SendBody, then 1..12 writes with input length in {0 (finish),1,2,3,15,16,255,256,"
        "4095,4096,10239,10240,10241,25000,random} and output size in {0..12, len+5..len+12, values leaving exactly 0..6 "
        "bytes after a chunk, random, large}; finishing writes interleaved and repeated; writes after the end. "
        "oracle = independent strict chunked parser over the concatenated output. non-trivial = SendBody reached and "
        ">= 1 chunk or the terminator emitted; distinct = distinct op lists")
TRUSTED_BASE = COMMON_TRUSTED_BASE
ASSUMPTIONS = ["64-bit usize"]
_stats = {"caps_small": 0, "caps_exact": 0, "finishing": 0, "big_inputs": 0, "routes": {}}


def hexlen(n):
    return len("%x" % n)


def patt(n, rng):
    base = rng.randrange(256)
    # include CR / LF bytes in the payload
    b = bytearray(((base + i * 11) & 0xFF) for i in range(n))
    for j in range(0, n, 17):
        b[j] = rng.choice([13, 10, 48, 0, 255])
    return bytes(b)


def gen_one(rng, big):
    kind = rng.random()
    if kind < 0.6:
        first = [op_new(rng.choice(BODY_METHODS), "1.1", "http", "a.test", "/c", [])]
    elif kind < 0.85:
        first = [op_new(rng.choice(BODY_METHODS), "1.1", "http", "a.test", "/c", [("Transfer-Encoding", rng.choice(["chunked", "Chunked", "CHUNKED"]))])]
    else:
        first = [op_new(rng.choice(["GET", "DELETE", "OPTIONS"]), "1.1", "http", "a.test", "/c", []), "despite"]
    if kind < 0.6 and rng.random() < 0.25:
        first = [op_new("POST", "1.0", "http", "a.test", "/c", [])]          # HTTP/1.0 requests frame an unsized body chunked as well
    ops = first + ["proceed", "write_head #4096"] + (["write_head #4096"] if rng.random() < 0.3 else []) + ["proceed", "q_is_chunked"]
    if rng.random() < 0.5:
        # any route into SendBody with a chunked body (lib.send_context): framing on the request / added / default, despite, HTTP/1.0,
        # explicit Host, the Expect handshake, a second hop, the head written in segments
        ctx, route = send_context(rng, "chunked")
        _stats["routes"][route] = _stats["routes"].get(route, 0) + 1
        ops = ctx + ["q_is_chunked"]
    nops = rng.randrange(1, 13)
    for _ in range(nops):
        r = rng.random()
        if r < 0.06:
            # consume_direct_write is refused for a chunked body (BodyIsChunked) and must leave the body as it was
            ops.append("direct %s" % num(rng.choice([0, 1, 5])))
            continue
        if r < 0.2:
            _stats["finishing"] += 1
            ops.append("write_body x %s" % num(rng.choice([0, 1, 2, 3, 4, 5, 6, 10, 100])))
            if rng.random() < 0.5:
                ops.append("q_can_proceed")
            continue
        lens = [1, 2, 3, 15, 16, 17, 255, 256, 257] + ([4095, 4096, 10239, 10240, 10241, 25000] if big else [])
        ln = rng.choice(lens) if rng.random() < 0.7 else rng.randrange(1, 30000 if big else 700)
        if ln > 5000:
            _stats["big_inputs"] += 1
        c = rng.random()
        if c < 0.3:
            cap = rng.randrange(0, 13)
            _stats["caps_small"] += 1
        elif c < 0.6:
            # exactly room for a chunk of ln (or of part of it) plus 0..6 spare bytes
            part = rng.choice([ln, max(1, ln // 2), max(1, ln - 1)])
            cap = part + hexlen(part) + 4 + rng.randrange(0, 7)
            _stats["caps_exact"] += 1
        elif c < 0.75:
            cap = rng.choice([20, 21, 22, 261, 262, 263, 4102, 4103, 4104, 10247, 10248, 10249, 10253, 10254])
        elif c < 0.9:
            cap = rng.randrange(0, 2 * ln + 20)
        else:
            cap = 100000
        ops.append("write_body %s %s" % (hx(patt(ln, rng)), num(cap)))
        if rng.random() < 0.2:
            ops.append("q_can_proceed")
    ops += ["q_can_proceed", "write_body x #3", "q_can_proceed", "write_body x #5", "q_can_proceed"] + \
           (["direct #1", "q_can_proceed"] if rng.random() < 0.5 else []) + \
           ["write_body x #100", "write_body %s #100" % hx(b"late"), "q_can_proceed", "proceed"]
    return {"ops": ops, "meta": {}}


def generate(rng, tier, mult):
    count = (1500 if tier == "quick" else 12000) * mult
    return [gen_one(rng, big=(i % 10 == 0)) for i in range(count)]


def stats():
    return _stats


def corpus():
    base = [op_new("POST", "1.1", "http", "a.test", "/", []), "proceed", "write_head #4096", "proceed"]
    return [
        {"ops": base + ["write_body %s #5" % hx(b"hello"), "q_can_proceed", "write_body %s #6" % hx(b"hello"), "write_body x #4", "q_can_proceed", "write_body x #5", "q_can_proceed", "write_body x #5"], "meta": {"regression": "F4 F5 F6"}},
        {"ops": base + ["write_body %s #21" % hx(b"x" * 3000), "write_body %s #11000" % hx(b"y" * 10992)], "meta": {"regression": "F7"}},
        {"ops": [op_new("GET", "1.1", "http", "a.test", "/", []), "despite", "proceed", "write_head #4096", "proceed",
                 "write_body %s #100" % hx(b"hi"), "write_body x #100", "q_can_proceed", "proceed"], "meta": {"regression": "F3"}},
    ]


def oracle(script, obs):
    fails = []
    ops = script["ops"]
    in_body = False
    emitted = b""
    taken = b""
    terminated = False
    for i, op in enumerate(ops):
        if i >= len(obs):
            break
        o = obs[i]
        p = op.split(" ")
        if o == "panic":
            fails.append("op %d (%s): panic" % (i, p[0]))
            break
        if p[0] == "proceed" and o == "state SendBody":
            in_body = True
            continue
        if not in_body:
            continue
        if p[0] == "q_is_chunked" and o != "true":
            fails.append("op %d: body not chunked" % i)
            break
        if p[0] == "write_body":
            x = unhex(p[1])
            cap = unnum(p[2])
            if terminated and len(x) > 0:
                if not o.startswith("err"):
                    fails.append("op %d: non-empty write after the terminator not refused: %s" % (i, o[:60]))
                    break
                continue
            if not o.startswith("ok "):
                fails.append("op %d: write failed: %s" % (i, o))
                break
            ci, co, data = parse_counts(o)
            if co > cap or ci > len(x) or co != len(data):
                fails.append("op %d: counts out of bounds" % i)
                break
            if terminated and co != 0:
                fails.append("op %d: bytes emitted after the terminator" % i)
                break
            # per call: whole chunks, optionally (only for an empty input) the terminator
            try:
                chunks, term, rest = parse_chunked_strict(data)
            except ValueError as e:
                fails.append("op %d: output of one call is not a sequence of whole chunks: %s" % (i, e))
                break
            if rest:
                fails.append("op %d: bytes after the terminator in one call" % i)
                break
            if term and (len(x) != 0 or chunks):
                fails.append("op %d: terminator emitted by a call with non-empty input" % i)
                break
            if b"".join(chunks) != x[:ci]:
                fails.append("op %d: chunk data differs from the consumed input prefix" % i)
                break
            if any(len(c) == 0 for c in chunks):
                fails.append("op %d: empty data chunk" % i)
                break
            if term:
                terminated = True
            emitted += data
            taken += x[:ci]
        elif p[0] == "q_can_proceed":
            fin = (o == "true")
            if fin != terminated:
                fails.append("op %d: finished=%s but terminator %s" % (i, fin, "emitted" if terminated else "not emitted"))
                break
        elif p[0] == "proceed":
            if terminated != o.startswith("state RecvResponse"):
                fails.append("op %d: proceed gave %s with terminator %s" % (i, o, terminated))
                break
            if o.startswith("state"):
                in_body = False
    # whole history
    try:
        chunks, term, rest = parse_chunked_strict(emitted)
        if b"".join(chunks) != taken or rest or term != terminated:
            fails.append("concatenated output is not the chunked coding of the consumed input")
    except ValueError as e:
        fails.append("concatenated output is not a valid chunked coding: %s" % e)
    return fails


def nontrivial(script, obs):
    reached = any(o == "state SendBody" for o in obs)
    moved = any(op.startswith("write_body") and o.startswith("ok ") and parse_counts(o)[1] > 0 for op, o in zip(script["ops"], obs))
    return reached and moved
