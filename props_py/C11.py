"""C11 -- Expect: 100-continue handshake: body is sent iff the server did not refuse."""
from .lib import *

RULE = ("POST/PUT (and GET/DELETE/OPTIONS with send_body_despite_method) with Expect: 100-continue (HTTP/1.0 POST and HTTP/1.1, Content-Length or chunked) against server streams whose first "
        "head is: a bare 100 with reason phrase {Continue, empty, absent, long, obs-text}; another status (200, 403, 417, 500, 301, "
        "and the other informational codes 101, 102, 103, 199) without fields; another status with 1..3 fields (incl. Connection: close / keep-alive); two late 100s in a row -- for EVERY cut position of that head x {look once at the cut then advance, "
        "look at every 1-byte arrival up to the cut then advance} x later path (body then final response incl. a late 100, or the "
        "refused response directly). Every flow is driven to Cleanup. non-trivial = Await100 reached and the flow completed; distinct = "
        "distinct op lists")
TRUSTED_BASE = COMMON_TRUSTED_BASE
ASSUMPTIONS = ["a 100 response that carries header fields is outside the property", "the caller re-presents unconsumed bytes (window discipline)"]
_stats = {"kinds": {}, "decisions": {}}
FINAL = b"HTTP/1.1 200 OK\r\nContent-Length: 0\r\n\r\n"


def first_heads(rng):
    out = []
    for reason in [b" Continue", b" ", b"", b" " + b"Go ahead please " * 6, b" caf\xe9"]:
        out.append(("100", b"HTTP/1.1 100" + reason + b"\r\n\r\n", None))
    out.append(("100", b"HTTP/1.0 100 Continue\r\n\r\n", None))
    for st in [200, 403, 417, 500, 301, 101, 102, 103, 199]:
        out.append(("bare", b"HTTP/1.1 %d Nope\r\n\r\n" % st, None))
    for st, fields in [(403, [(b"Content-Length", b"0")]), (403, [(b"Connection", b"keep-alive"), (b"Content-Length", b"0")]), (417, [(b"Connection", b"close"), (b"Content-Length", b"0")]),
                       (200, [(b"X-A", b"b"), (b"Content-Length", b"0"), (b"X-C", b"d")]), (103, [(b"Link", b"</s.css>; rel=preload")]), (401, [(b"Content-Length", b"0"), (b"WWW-Authenticate", b"Basic")])]:
        head = render_response_head("1.1", st, b"No", fields)
        first_line_end = head.index(b"\r\n") + 2
        first_field_end = head.index(b"\r\n", first_line_end) + 2
        out.append(("fields", head, first_field_end))
    return out


def build(rng, version, framing, kind, h1, field_end, cut, mode, double=False, despite=False):
    headers = [("expect", "100-continue")]
    if framing == "length":
        headers.append(("content-length", "2"))
    method = "POST" if version == "1.0" else rng.choice(["POST", "PUT"])
    stream = h1 + (h1 if double else b"") + (FINAL if kind == "100" else b"")
    if despite:
        # a method that normally has no body, sent with one on request: the handshake applies all the same
        method = rng.choice(["GET", "DELETE", "OPTIONS"]) if version == "1.1" else "GET"
    ops = [op_new(method, version, "http", "a.test", "/e", headers)] + (["despite"] if despite else []) + ["proceed", "write_head #4096", "proceed", "stream %s" % hx(stream)]
    if mode == "once":
        ops += ["arrive %s" % num(cut), "try100", "q_keep_await"]
    else:
        for k in range(cut + 1):
            if k > 0:
                ops.append("arrive #1")
            ops += ["try100", "q_keep_await"]
    ops.append("proceed")
    # decision the property prescribes at this cut
    if kind == "100":
        decided = "continue" if cut >= len(h1) else None
    elif kind == "bare":
        decided = "refuse" if cut >= len(h1) else None
    else:
        decided = "refuse" if cut >= field_end else None
    if decided == "refuse":
        ops += ["arrive #100000", "try_response", "q_can_proceed", "proceed", "q_must_close", "proceed", "q_must_close"]
    else:
        ops += ["write_body %s #100" % hx(b"hi"), "write_body x #100", "q_can_proceed", "proceed", "arrive #100000", "try_response", "try_response",
                "q_can_proceed", "proceed", "q_must_close", "proceed", "q_must_close"]
    _stats["kinds"][kind] = _stats["kinds"].get(kind, 0) + 1
    _stats["decisions"][str(decided)] = _stats["decisions"].get(str(decided), 0) + 1
    return {"ops": ops, "meta": {"kind": kind, "h1": h1.hex(), "cut": cut, "mode": mode, "decided": decided, "field_end": field_end, "double": double,
                                 "h1_status": int(h1[9:12]), "h1_version": int(h1[7:8])}}


def generate(rng, tier, mult):
    out = []
    heads = first_heads(rng)
    for version in ["1.1", "1.0"]:
        for framing in ["chunked", "length"]:
            for kind, h1, fe in heads:
                cuts = range(0, len(h1) + 1)
                for cut in cuts:
                    modes = ["once", "every"] if (tier == "thorough" or cut % 3 == 0 or cut >= len(h1) - 3 or (fe and abs(cut - fe) <= 2)) else ["once"]
                    for mode in modes:
                        if mode == "every" and cut > 60 and tier == "quick" and cut < len(h1) - 3:
                            continue
                        out.append(build(rng, version, framing, kind, h1, fe, cut, mode))
                for cut in sorted(set([0, len(h1) // 2, len(h1) - 1, len(h1)])):
                    out.append(build(rng, version, framing, kind, h1, fe, cut, "once", despite=True))
                if kind == "100":
                    # two late interim responses: only the first may be skipped ("exactly once")
                    for cut in (0, 5, len(h1) - 1):
                        out.append(build(rng, version, framing, kind, h1, fe, cut, "once", double=True))
    return out


def stats():
    return _stats


def oracle(script, obs):
    meta = script["meta"]
    h1 = bytes.fromhex(meta["h1"])
    ops = script["ops"]
    if any(o == "panic" for o in obs):
        return ["panic (cut %d of %r)" % (meta["cut"], h1[:30])]
    fails = []
    arrived = 0
    stream_len = 0
    consumed = 0
    decided = None
    tag = None
    looked = False
    sent_body = False
    responses = []
    for i, (op, o) in enumerate(zip(ops, obs)):
        p = op.split(" ")
        if p[0] == "stream":
            stream_len = len(unhex(p[1]))
        elif p[0] == "arrive":
            arrived = min(stream_len, arrived + unnum(p[1]))
        elif p[0] == "proceed" and o.startswith("state "):
            prev = tag
            tag = o.split(" ")[1]
            if prev == "SendRequest" and tag != "Await100":
                return ["the request carries Expect: 100-continue and a body, but after the head the flow went to %s without awaiting the go-ahead" % tag]
            if prev == "Await100":
                if decided == "refuse" and tag != "RecvResponse":
                    return ["refused at cut %d but proceeded to %s" % (meta["cut"], tag)]
                if decided != "refuse" and tag != "SendBody":
                    return ["decision %s at cut %d but proceeded to %s" % (decided, meta["cut"], tag)]
            if tag == "SendBody":
                if decided == "refuse":
                    return ["body requested after a refusal"]
                sent_body = True
        elif p[0] == "try100":
            if not o.startswith("ok "):
                return ["op %d: try_read_100 failed on prefix %d of a well-formed head: %s" % (i, arrived, o)]
            n = unnum(o.split(" ")[1])
            if decided is None:
                if meta["kind"] == "100":
                    want = "continue" if arrived >= len(h1) else None
                elif meta["kind"] == "bare":
                    want = "refuse" if arrived >= len(h1) else None
                else:
                    want = "refuse" if arrived >= meta["field_end"] else None
                if want == "continue":
                    if n != len(h1):
                        return ["op %d: complete bare 100 (%d bytes) but consumed %d" % (i, len(h1), n)]
                    consumed += n
                elif n != 0:
                    return ["op %d: consumed %d bytes at prefix %d (decision %s)" % (i, n, arrived, want)]
                decided = want
            keep = obs[i + 1] if i + 1 < len(obs) and ops[i + 1] == "q_keep_await" else None
            if keep is not None and (keep == "true") != (decided is None):
                return ["op %d: can_keep_await_100=%s but decision is %s at prefix %d" % (i, keep, decided, arrived)]
        elif p[0] == "try_response":
            if o.startswith("err"):
                return ["op %d: try_response failed: %s" % (i, o)]
            used, ver, status, hs = parse_response_obs(o)
            responses.append((used, status))
        elif p[0] == "q_must_close" and o in ("true", "false"):
            if decided == "refuse" and o != "true":
                return ["refused handshake but connection not marked must-close"]
    if decided != meta["decided"]:
        return ["oracle bookkeeping mismatch: %s vs %s" % (decided, meta["decided"])]
    # later path
    if decided == "refuse":
        if not responses or responses[0] != (len(h1), meta["h1_status"]):
            return ["after the refusal try_response must return that very response (%d bytes, status %d): %s" % (len(h1), meta["h1_status"], responses[:1])]
        if sent_body:
            return ["body sent although refused"]
    elif decided == "continue":
        if not responses or responses[0] != (len(FINAL), 200):
            return ["after 100-continue and the body, the final response was not returned: %s" % responses[:2]]
    else:
        # gave up: body sent; the stream starts with h1
        if meta["kind"] == "100" and meta.get("double"):
            if len(responses) < 2 or responses[0] != (len(h1), None) or responses[1] != (len(h1), 100):
                return ["two late 100 responses: the first must be skipped and the second surfaced (skipped exactly once): %s" % responses[:2]]
            return fails
        elif meta["kind"] == "100":
            if len(responses) < 2 or responses[0] != (len(h1), None) or responses[1] != (len(FINAL), 200):
                return ["late 100 must be skipped exactly once, then the final response returned: %s" % responses[:2]]
        else:
            if not responses or responses[0] != (len(h1), meta["h1_status"]):
                return ["after giving up, the response must be returned: %s" % responses[:1]]
    if tag != "Cleanup" and not any(o == "state Cleanup" for o in obs):
        # flows with a body-less final response end in Cleanup; a 301 without Location ends in Redirect
        if not any(o == "state Redirect" for o in obs):
            return ["flow not usable to completion: last state %s" % tag]
    return fails


def nontrivial(script, obs):
    return any(o == "state Await100" for o in obs) and any(o in ("state Cleanup", "state Redirect") for o in obs)
