"""C19 -- Sending a body always makes progress when progress is possible."""
from .lib import *

RULE = ("for each output length cap: writes of input lengths {1, 2, adv-1, adv, adv+1, cap-6..cap+1, 10239..10241, 20480, 30000} "
        "(adv = advertised maximum for cap) into cap bytes: consumed >= 1 when cap >= 6, consumed non-decreasing in the input "
        "length, consumed >= what the advertised maximum alone gets consumed. quick: cap in 6..=11000 step 7 plus boundaries and "
        "neighbourhoods of multiples of 10248; thorough: every cap in 6..=11000 (exhaustive over cap) plus neighbourhoods. "
        "Whole-body loops: body of N bytes sent with a fixed buffer, must finish within the number of steps an independent "
        "reference needs. Sized bodies: cap >= 1, also for declared lengths of 4 GiB and more. Output lengths ascend and descend within one body; the head is written with one call more than needed. non-trivial = progress made; distinct = distinct (cap, inputs)")
TRUSTED_BASE = COMMON_TRUSTED_BASE
ASSUMPTIONS = ["64-bit usize"]
EXHAUSTIVE = {"quick": False, "thorough": False}
_stats = {}


def calc_max_input(n):
    chunks, rem = divmod(n, 10248)
    return chunks * 10240 + (0 if rem <= 8 else rem - 8)


def ref_fit(cap):
    """Independent reference: the largest chunk payload c <= 10240 with hexlen(c) + 2 + c + 2 <= cap (0 if none)."""
    best = 0
    c = min(10240, max(cap - 5, 0))
    while c >= 1:
        if len("%x" % c) + 4 + c <= cap:
            return c
        c -= 1
    return best


def caps(tier, rng, mult):
    s = set()
    if tier == "thorough":
        s |= set(range(6, 11001))
    else:
        s |= set(range(6, 11001, 7 if mult == 1 else 3))
    for base in [6, 20, 21, 22, 261, 262, 263, 4102, 4103, 4104, 10247, 10248, 10249, 10253, 10254, 10255, 10256, 10270,
                 2 * 10248, 2 * 10248 + 6, 2 * 10248 + 14, 3 * 10248, 3 * 10248 + 6]:
        for d in range(-2, 3):
            if base + d >= 6:
                s.add(base + d)
    return sorted(s)


def generate(rng, tier, mult):
    cs = caps(tier, rng, mult)
    _stats["caps"] = len(cs)
    scripts = []
    # (the head is written "until write returns 0": one call more than needed, which must change nothing)
    head = [op_new("POST", "1.1", "http", "a.test", "/", []), "proceed", "write_head #4096", "write_head #4096", "proceed"]
    per = 12
    for gi, i in enumerate(range(0, len(cs), per)):
        ops = list(head)
        if gi % 3 == 2:
            ops, route = send_context(rng, "chunked")       # any other route into a chunked SendBody (lib.send_context)
            _stats["routes"] = _stats.get("routes", {})
            _stats["routes"][route] = _stats["routes"].get(route, 0) + 1
        meta = []
        group = cs[i:i + per]
        if gi % 2 == 1:
            group = group[::-1]      # output lengths also shrink within one body (a caller writing into the rest of one buffer)
        for cap in group:
            adv = calc_max_input(cap)
            lens = sorted(set([1, 2, max(adv - 1, 1), max(adv, 1), adv + 1] + [max(cap + d, 1) for d in range(-6, 2)] +
                              ([10239, 10240, 10241] if cap > 9000 else []) + ([20480, 30000] if cap % 5 == 0 or cap > 10000 else [])))
            for ln in lens:
                ops.append("write_sum z%d %s" % (ln, num(cap)))
            meta.append([cap, lens])
        scripts.append({"ops": ops, "meta": {"kind": "grid", "caps": meta}})
    # whole-body loops
    loops = 30 if tier == "quick" else 300
    for _ in range(loops * mult):
        cap = rng.choice([6, 7, 8, 9, 10, 11, 12, 20, 21, 22, 23, 64, 100, 261, 262, 263, 1000, 4103, 4104, 5000, 10248, 10254, 11000, 25000])
        per_step = ref_fit(cap)
        total = rng.choice([1, 2, 15, 16, 100, 1000, 5000, 30000]) if per_step > 30 else rng.choice([1, 2, 15, 16, 100, 300])
        # number of steps an ideal caller loop needs when every write consumes what fits
        steps = 0
        left = total
        while left > 0:
            space = cap
            took = 0
            while left - took > 0:
                c = min(ref_fit(space), left - took, 10240)
                if c == 0:
                    break
                took += c
                space -= c + len("%x" % c) + 4
            left -= took
            steps += 1
        ops = (list(head) if rng.random() < 0.6 else send_context(rng, "chunked")[0]) + ["body z%d" % total]
        for _ in range(steps):
            ops.append("write_from %s %s" % (num(total), num(cap)))
        ops += ["write_from #10 %s" % num(cap), "q_can_proceed"]
        scripts.append({"ops": ops, "meta": {"kind": "loop", "cap": cap, "total": total, "steps": steps}})
    # sized bodies of 4 GiB and more: every write moves min(input, output, remaining) > 0 bytes
    for total in [2 ** 32, 2 ** 32 + 20, 2 ** 33 + 100, 2 ** 64 - 1]:
        ops = [op_new("PUT", "1.1", "http", "a.test", "/", [("content-length", str(total))]), "proceed", "write_head #4096", "proceed"]
        for ln, cap in [(1, 1), (100, 100), (20, 100), (100, 7), (500, 100), (100, 100)]:
            ops.append("write_sum z%d %s" % (ln, num(cap)))
        scripts.append({"ops": ops, "meta": {"kind": "sizedbig", "total": total}})
    # sized
    for total in [1, 5, 1000]:
        ops = [op_new("POST", "1.1", "http", "a.test", "/", [("content-length", str(total))]), "proceed", "write_head #4096", "proceed", "body z%d" % total]
        for _ in range(total if total < 10 else 10):
            ops.append("write_from %s #1" % num(total))
        scripts.append({"ops": ops, "meta": {"kind": "sized", "total": total}})
    # progress after a REFUSED call: an over-length write / direct-write report is refused and must leave the body as it was, so the
    # correctly sized writes that follow make progress as if nothing had happened (state left behind by an error: seeded change C19-15)
    for total in [1, 5, 1000]:
        for refusal in (["write_body z%d #100000" % (total + 1)], ["direct %s" % num(total + 1)], ["write_body z%d #3" % (total + 7), "direct %s" % num(total + 2)]):
            ops = [op_new("POST", "1.1", "http", "a.test", "/", [("content-length", str(total))]), "proceed", "write_head #4096", "proceed", "body z%d" % total]
            ops += refusal
            for _ in range(total if total < 10 else 10):
                ops.append("write_from %s #1" % num(total))
            ops += ["write_from %s #100000" % num(total), "q_can_proceed"]
            scripts.append({"ops": ops, "meta": {"kind": "sized", "total": total, "after_refusal": True}})
    for cap in [6, 21, 1000]:
        ops = list(head) + ["body z300", "direct #5"]           # refused for a chunked body (BodyIsChunked)
        for _ in range(300):
            ops.append("write_from #300 %s" % num(cap))
            if len(ops) > 60 and cap > 6:
                break
        scripts.append({"ops": ops, "meta": {"kind": "loop", "cap": cap, "total": 300, "steps": 0, "open_end": True}})
    return scripts


def stats():
    return _stats


def oracle(script, obs):
    fails = []
    ops = script["ops"]
    kind = script["meta"]["kind"]
    if any(o == "panic" for o in obs):
        return ["panic"]
    if kind == "grid":
        results = {}
        for op, o in zip(ops, obs):
            p = op.split(" ")
            if p[0] != "write_sum":
                continue
            if not o.startswith("ok "):
                return ["write failed: %s" % o]
            ln = len(unhex(p[1]))
            cap = unnum(p[2])
            ci, co, _ = parse_counts(o)
            if ci > ln or co > cap:
                return ["counts out of bounds: in %d out %d for input %d cap %d" % (ci, co, ln, cap)]
            results.setdefault(cap, []).append((ln, ci))
        for cap, rs in results.items():
            rs.sort()
            adv = calc_max_input(cap)
            adv_consumed = None
            for ln, ci in rs:
                if ln == adv:
                    adv_consumed = ci
            prev = None
            for ln, ci in rs:
                if cap >= 6 and ln >= 1 and ci < 1:
                    fails.append("no progress: input %d, output %d -> consumed %d" % (ln, cap, ci))
                    return fails
                if prev is not None and ci < prev[1]:
                    fails.append("offering more input reduced progress: output %d: input %d -> %d, input %d -> %d" % (cap, prev[0], prev[1], ln, ci))
                    return fails
                if adv_consumed is not None and ln >= adv and ci < adv_consumed:
                    fails.append("output %d: input %d consumed %d < %d consumed for the advertised maximum %d" % (cap, ln, ci, adv_consumed, adv))
                    return fails
                prev = (ln, ci)
    elif kind == "sizedbig":
        for op, o in zip(ops, obs):
            p = op.split(" ")
            if p[0] != "write_sum":
                continue
            if not o.startswith("ok "):
                return ["write failed: %s" % o]
            ci, co, _ = parse_counts(o)
            want = min(len(unhex(p[1])), unnum(p[2]))
            if ci != want:
                return ["sized body of %d bytes: a write of %d bytes into %d consumed %d (no progress / less than fits)" % (script["meta"]["total"], len(unhex(p[1])), unnum(p[2]), ci)]
    elif kind == "loop":
        total = script["meta"]["total"]
        sent = 0
        for op, o in zip(ops, obs):
            if op.startswith("write_from"):
                if not o.startswith("ok "):
                    if sent >= total:
                        continue
                    return ["write failed: %s" % o]
                ci, co, _ = parse_counts(o)
                if sent < total and ci < 1:
                    return ["caller loop stuck: cap %d, %d of %d sent, write consumed 0" % (script["meta"]["cap"], sent, total)]
                sent += ci
        if sent != total and not script["meta"].get("open_end"):
            fails.append("caller loop with cap %d did not finish %d bytes in %d steps (sent %d)" % (script["meta"]["cap"], total, script["meta"]["steps"], sent))
    else:
        total = script["meta"]["total"]
        sent = 0
        for op, o in zip(ops, obs):
            if op.startswith("write_from") and sent < total:
                if not o.startswith("ok "):
                    return ["write failed: %s" % o]
                ci, _, _ = parse_counts(o)
                if ci < 1:
                    return ["sized body: no progress with 1 byte of output"]
                sent += ci
        if script["meta"].get("after_refusal"):
            if sent != total:
                return ["sized body: %d of %d bytes sent after a refused call" % (sent, total)]
            if obs[len(ops) - 1] != "true":
                return ["sized body sent completely after a refused call, but the flow cannot proceed"]
    return fails


def nontrivial(script, obs):
    return any((op.startswith("write_sum") or op.startswith("write_from")) and o.startswith("ok ") and parse_counts(o)[0] > 0 for op, o in zip(script["ops"], obs))
