"""C06 -- Response body framing follows the HTTP/1.1 message-body-length rules."""
import itertools
from .lib import *

RULE = ("decision grid enumerated completely: 9 request methods x status codes x response versions {1.0,1.1} x Content-Length in "
        "{absent,'','0','7','18446744073709551615','18446744073709551616','abc','+5','5 5',non-text,'007'} x Transfer-Encoding in "
        "{absent,chunked,Chunked,'gzip, chunked','chunked, gzip','gzip',identity,non-text} (x Location field present/absent for 3xx); quick: boundary statuses "
        "{101,199,200,204,205,299,300,301,304,305,307,399,400,999}; the same decision preceded by an interim 1xx response (with or without its own "
        "framing fields) returned on the same flow; the same decision for HTTP/1.0 requests and with Connection: close on the request / "
        "on the response, and for a response that refuses an Expect: 100-continue body; a reduced grid through the single-call API (Call::try_response, Call::into_body); thorough: additionally every status 101..999 with 5x4 header "
        "classes. Each cell: head -> try_response -> proceed -> body mode. Status 100 is C11's. oracle = transcription of the "
        "statement's rule list. non-trivial = every cell (each is a distinct decision); distinct = distinct cells")
TRUSTED_BASE = COMMON_TRUSTED_BASE
ASSUMPTIONS = ["single Content-Length / Transfer-Encoding field per response (several fields: first one is looked at; outside the property)"]
EXHAUSTIVE = {"quick": True, "thorough": True}
_stats = {"cells": 0, "outcomes": {}}

BOUNDARY = [101, 199, 200, 204, 205, 299, 300, 301, 304, 305, 307, 399, 400, 999]
CLS = [None, b"", b"0", b"7", b"18446744073709551615", b"18446744073709551616", b"abc", b"+5", b"5 5", b"\xff7", b"007"]
# (the last three: codings that merely start with, end with or contain the word -- not chunked; seeded change C06-20 compared a prefix)
TES = [None, b"chunked", b"Chunked", b"gzip, chunked", b"chunked, gzip", b"gzip", b"identity", b"chunked\x80", b"chunked-v2", b"xchunked", b"gzip, ChunkedX"]
CLS_SMALL = [None, b"", b"0", b"7", b"abc", b"+5"]
TES_SMALL = [None, b"chunked", b"gzip", b"gzip ,  CHUNKED"]


def expected(method, status, v11, cl, te):
    """Transcription of the statement. Returns ('err',) or (mode, successor)."""
    n = None
    if cl is not None:
        if not (len(cl) > 0 and all(48 <= c <= 57 for c in cl)) or int(cl) >= 2 ** 64:
            return ("err",)
        n = int(cl)
    chunked = False
    if te is not None and all((32 <= c < 127) or c == 9 for c in te):
        chunked = any(e.strip(b" \t\r\n\x0b\x0c").lower() == b"chunked" for e in te.split(b","))
    redirect = 300 <= status <= 399 and status != 304
    if method == "HEAD" or (method == "CONNECT" and 200 <= status <= 299) or 100 <= status <= 199 or status in (204, 304):
        mode = "nobody"
    elif v11 and chunked:
        mode = "chunked"
    elif n is not None:
        mode = "length #%d" % n
    elif redirect and cl is None and te is None:
        mode = "nobody"         # "a redirect without any framing header has no body"
    elif redirect and te is not None and not all((32 <= c < 127) or c == 9 for c in te):
        return ("dontcare",)    # a 3xx whose only framing header is not text: header present, value unusable -- not ordered by the statement
    else:
        mode = "close"
    body = mode not in ("nobody", "length #0")
    succ = "RecvBody" if body else ("Redirect" if redirect else "Cleanup")
    return (mode, succ)


INTERIMS = [b"HTTP/1.1 103 Early Hints\r\nLink: </s.css>\r\n\r\n", b"HTTP/1.1 102 Processing\r\n\r\n",
            b"HTTP/1.1 199 Misc\r\nContent-Length: 9\r\n\r\n", b"HTTP/1.1 101 Switching\r\nTransfer-Encoding: chunked\r\n\r\n"]


def build(method, status, version, cl, te, loc=True, interim=None, reqv="1.1", req_close=False, resp_close=False, refused=False):
    fields = []
    if cl is not None:
        fields.append((b"Content-Length", cl))
    if te is not None:
        fields.append((b"Transfer-Encoding", te))
    if 300 <= status <= 399 and loc:
        fields.append((b"Location", b"/n"))
    if resp_close:
        fields.insert(0, (b"Connection", b"close"))
    head = render_response_head(version, status, b"X", fields)
    rh = [("connection", "close")] if req_close else []
    if refused:
        # Expect: 100-continue refused by this very response while the client awaits the go-ahead: the body is never sent, the
        # response is then read in RecvResponse and framed like any other
        ops = [op_new(method, reqv, "http", "a.test", "/", rh + [("content-length", "2"), ("expect", "100-continue")]), "proceed", "write_head #4096", "proceed",
               "raw_try100 %s" % hx(head), "proceed"]
    elif method in BODY_METHODS:
        ops = [op_new(method, reqv, "http", "a.test", "/", rh + [("content-length", "0")]), "proceed", "write_head #4096", "proceed", "write_body x #0", "proceed"]
    else:
        ops = [op_new(method, reqv, "http", "a.test", "/", rh), "proceed", "write_head #4096", "proceed"]
    if interim is not None:
        # an interim response (1xx other than 100) is returned first; the caller keeps reading on the same flow. The framing of the
        # final response is decided by the final response alone.
        ops += ["raw_try_response %s" % hx(interim)]
    ops += ["raw_try_response %s" % hx(head), "q_can_proceed", "proceed", "q_body_mode", "q_can_proceed"]
    return {"ops": ops, "meta": {"cell": [method, status, version, cl.hex() if cl is not None else None, te.hex() if te is not None else None],
                                 "location": bool(loc and 300 <= status <= 399), "interim": interim is not None,
                                 "variant": ("request HTTP/%s" % reqv if reqv != "1.1" else "") + (" request Connection: close" if req_close else "") +
                                            (" response Connection: close" if resp_close else "") + (" Expect refused by this response" if refused else "")}}


def build_call(method, status, version, cl, te):
    fields = []
    if cl is not None:
        fields.append((b"Content-Length", cl))
    if te is not None:
        fields.append((b"Transfer-Encoding", te))
    if 300 <= status <= 399:
        fields.append((b"Location", b"/n"))
    head = render_response_head(version, status, b"X", fields)
    ops = call_recv_prelude(method) + ["raw_try_response %s" % hx(head), "q_is_finished", "proceed"]
    return {"ops": ops, "meta": {"cell": [method, status, version, cl.hex() if cl is not None else None, te.hex() if te is not None else None],
                                 "location": 300 <= status <= 399, "api": "call"}}


def generate(rng, tier, mult):
    out = []
    for m, s, v, cl, te in itertools.product(METHODS, BOUNDARY, ["1.0", "1.1"], CLS, TES):
        out.append(build(m, s, v, cl, te))
        if 300 <= s <= 399:
            # the successor must not depend on whether the 3xx response carries a Location field
            out.append(build(m, s, v, cl, te, loc=False))
    # the same decision after an interim 1xx response on the same flow
    k = 0
    for m, s, v, cl, te in itertools.product(METHODS, [200, 204, 301, 304, 404], ["1.0", "1.1"], CLS_SMALL, TES_SMALL):
        out.append(build(m, s, v, cl, te, interim=INTERIMS[k % len(INTERIMS)]))
        k += 1
    # the decision does not depend on the REQUEST's version, nor on Connection: close on either side (a connection that will be closed
    # anyway still has its response body read as framed)
    for m, s, v, cl, te in itertools.product(HTTP10_METHODS, BOUNDARY, ["1.0", "1.1"], CLS_SMALL, TES_SMALL):
        out.append(build(m, s, v, cl, te, reqv="1.0"))
    for m, s, v, cl, te in itertools.product(METHODS, [200, 204, 301, 302, 307, 404], ["1.0", "1.1"], CLS_SMALL, TES_SMALL):
        out.append(build(m, s, v, cl, te, resp_close=True))
        out.append(build(m, s, v, cl, te, req_close=True))
    for m, s, v, cl, te in itertools.product(BODY_METHODS, [200, 204, 301, 304, 403, 417], ["1.0", "1.1"], CLS_SMALL, TES_SMALL):
        out.append(build(m, s, v, cl, te, refused=True))
    # any route into RecvResponse (lib.recv_context) on a random sample of cells
    mk = {"get": "GET", "delete": "DELETE", "post": "POST", "despite": "GET", "hop2": "GET", "get-1.0": "GET", "get-close": "GET", "head": "HEAD", "connect": "CONNECT"}
    for _ in range(1500 if tier == "quick" else 8000):
        ctx, prefix, info = recv_context(rng, body_allowed=False)
        m = mk.get(info["kind"], "POST")
        s_, v, cl, te = rng.choice(BOUNDARY), rng.choice(["1.0", "1.1"]), rng.choice(CLS), rng.choice(TES)
        cell = build(m, s_, v, cl, te)
        k = next(i for i, op in enumerate(cell["ops"]) if op.startswith("raw_try_response"))
        cell["ops"] = ctx + (["raw_try_response %s" % hx(prefix)] if prefix else []) + cell["ops"][k:]
        cell["meta"]["variant"] = "route " + info["kind"]
        out.append(cell)
    # the single-call API: Call::try_response decides the same framing; Call::into_body answers "no body" exactly for the no-body cases
    for m, s, v, cl, te in itertools.product(METHODS, [101, 200, 204, 299, 301, 304, 404], ["1.0", "1.1"], CLS_SMALL, TES_SMALL):
        out.append(build_call(m, s, v, cl, te))
    if tier == "thorough":
        rest = [s for s in range(101, 1000) if s not in BOUNDARY]
        for m, s, v, cl, te in itertools.product(METHODS, rest, ["1.0", "1.1"], CLS_SMALL, TES_SMALL):
            out.append(build(m, s, v, cl, te))
            if 300 <= s <= 399:
                out.append(build(m, s, v, cl, te, loc=False))
    _stats["cells"] = len(out)
    return out


def stats():
    return _stats


def oracle(script, obs):
    m, s, v, cl, te = script["meta"]["cell"]
    cl = bytes.fromhex(cl) if cl is not None else None
    te = bytes.fromhex(te) if te is not None else None
    exp = expected(m, s, v == "1.1", cl, te)
    _stats["outcomes"][exp[0].split(" ")[0]] = _stats["outcomes"].get(exp[0].split(" ")[0], 0) + 1
    ops = script["ops"]
    if any(o == "panic" for o in obs):
        return ["panic in cell %s" % script["meta"]["cell"]]
    idx = [k for k, op in enumerate(ops) if op.startswith("raw_try_response")]
    i = idx[-1]
    if len(idx) > 1 and script["meta"].get("interim") and not obs[idx[0]].startswith("some "):
        return ["interim response not returned: %s" % obs[idx[0]][:60]]
    o = obs[i]
    cell = "%s %d HTTP/%s cl=%r te=%r%s" % (m, s, v, cl, te, ("" if script["meta"].get("location", True) or not 300 <= s <= 399 else " (no Location field)") + (" after an interim 1xx on the same flow" if script["meta"].get("interim") else "") + (" [%s]" % script["meta"]["variant"].strip() if script["meta"].get("variant") else ""))
    if exp[0] == "dontcare":
        return []
    if script["meta"].get("api") == "call":
        cell += " [single-call API]"
        if exp[0] == "err":
            return [] if o.startswith("err") else ["%s: non-numeric Content-Length not an error: %s" % (cell, o[:60])]
        if not o.startswith("some "):
            return ["%s: head rejected: %s" % (cell, o[:60])]
        if obs[i + 1] != "true":
            return ["%s: Call::is_finished false after the head" % cell]
        want = "none" if exp[0] == "nobody" else "call RecvBody"
        if obs[i + 2] != want:
            return ["%s: Call::into_body gave %s, expected %s (mode %s)" % (cell, obs[i + 2], want, exp[0])]
        return []
    if exp[0] == "err":
        if not o.startswith("err"):
            return ["%s: non-numeric Content-Length not an error: %s" % (cell, o[:60])]
        return []
    if not o.startswith("some "):
        return ["%s: head rejected: %s" % (cell, o[:60])]
    if obs[i + 1] != "true":
        return ["%s: not ready to proceed after the head" % cell]
    st = obs[i + 2]
    if st != "state " + exp[1]:
        return ["%s: successor %s, expected %s (mode %s)" % (cell, st, exp[1], exp[0])]
    if exp[1] == "RecvBody":
        if obs[i + 3] != exp[0]:
            return ["%s: body mode %s, expected %s" % (cell, obs[i + 3], exp[0])]
    return []


def nontrivial(script, obs):
    return True
