"""C16 -- Headers the caller adds before sending always reach the wire."""
from .lib import *
from . import redirects as R

RULE = ("flows at redirect depth 0..4 (same chain generator as C13/C14) where at each depth the caller adds 0..3 headers with names from "
        "{cookie, authorization, x-new, connection, accept, host (when the original has none)}; plus dedicated scripts adding 0..60 "
        "headers incl. content-length on flows that send a body, values with non-UTF-8 bytes and white space, headers identical to one of the "
        "original request (also re-attached after a redirect), additions made before and after send_body_despite_method, the head written at once or in segments (buffers ending around line ends). The head "
        "written afterwards is parsed: the field lines right after the request line must be exactly the added headers, byte for byte, "
        "in the order added (hence ahead of the analysis-added and inherited ones); Flow::headers / version and Flow<SendRequest>::headers_map "
        "are queried on the way and must agree with the original request and with the head that follows. non-trivial = at least one header added at depth >= 1 or >= 5 "
        "headers added; distinct = distinct op lists")
TRUSTED_BASE = COMMON_TRUSTED_BASE
ASSUMPTIONS = ["restricted to resulting requests that request analysis accepts (C17)"]
_stats = {"added_at_depth": {}, "sensitive_added": 0}
NAMES = [b"cookie", b"authorization", b"x-a", b"x-b", b"connection", b"accept", b"Cookie", b"X-Mixed-Case", b"user-agent", b"te"]


def gen_many(rng):
    n = rng.choice([0, 1, 2, 5, 20, 60])
    method = rng.choice(["GET", "POST", "PUT", "HEAD"])
    orig_list = [(b"x-orig", b"o1"), (b"accept", b"orig-accept")]
    if method in BODY_METHODS and rng.random() < 0.35:
        # the request declares chunked framing itself; a Content-Length the caller adds on top is redundant (chunked wins) but is a header
        # the caller added and reaches the wire like every other one
        orig_list.append((b"transfer-encoding", b"chunked"))
    orig = group_headers(orig_list)
    ops = ["new " + request_args(method, "1.1", "http", "a.test", "/m", orig)]
    added = []
    for i in range(n):
        nm = rng.choice(NAMES)
        added.append((nm, b"added-%d" % i + rng.choice([b"", b"", b"-caf\xe9", b"-\xff\xfe\x80", b"-\xc3\xa9", b" \t x"])))
    if added and len(added) <= 56 and rng.random() < 0.4:
        # the very same (name, value) pair added again (the same cookie from two jars, accept twice): every addition is a field
        for _ in range(rng.choice([1, 1, 2, 3])):
            k, v = rng.choice(added)
            added.insert(rng.randrange(0, len(added) + 1), (rng.choice([k, k, k.upper()]), v))
    if rng.random() < 0.3:
        # identical to a header of the original request
        added.insert(rng.randrange(0, len(added) + 1), rng.choice([(b"accept", b"orig-accept"), (b"x-orig", b"o1"), (b"X-Orig", b"o1")]))
    if method in BODY_METHODS and rng.random() < 0.5:
        added.insert(rng.randrange(0, len(added) + 1), (b"content-length", b"7"))
    despite_at = rng.randrange(0, len(added) + 1) if (method in ("GET", "HEAD") and rng.random() < 0.5) else None
    for i, (k, v) in enumerate(added):
        if despite_at == i:
            ops.append("despite")       # some headers are added before, some after send_body_despite_method
        ops.append("header %s %s" % (hx(k), hx(v)))
    if despite_at == len(added):
        ops.append("despite")
    ops += ["q_uri", "q_method", "q_version", "q_headers", "proceed"]
    qh_idx = len(ops) - 2
    hm_idx = None
    if rng.random() < 0.6:
        hm_idx = len(ops)
        ops.append("headers_map")       # Flow<SendRequest>::headers_map: the effective headers as a map, before anything is written
    seg_from = len(ops)
    if rng.random() < 0.5:
        # the head written in segments: buffers that end shortly before / exactly at / shortly after a line end
        for _ in range(rng.randrange(1, 8)):
            ops.append("write_head %s" % num(rng.choice([0, 1, 2, 5, 11, 12, 13, 14, 15, 16, 17, 18, 19, 20, 21, 22, 23, 24, 25, 26, 27, 28, 29, 30, 31, 32, 40, 64])))
    ops.append("write_head #100000")
    meta = {"orig_headers": [[k.hex(), v.hex()] for k, v in orig], "explicit_host": False, "hm_idx": hm_idx, "qh_idx": qh_idx,
            "hops": [{"hop": 0, "added": [[k.hex(), v.hex()] for k, v in added], "head_idx": len(ops) - 1, "seg_from": seg_from}]}
    return {"ops": ops, "meta": meta}


def parse_header_list_obs(o):
    p = o.split(" ")
    n = unnum(p[0])
    return [(unhex(p[1 + 2 * i]), unhex(p[2 + 2 * i])) for i in range(n)]


def collapse_map(hs):
    """http::HeaderMap::insert for each header in turn: position of the first occurrence of a name, value of the last."""
    order = []
    last = {}
    for k, v in hs:
        if k not in last:
            order.append(k)
        last[k] = v
    return [(k, last[k]) for k in order]


def generate(rng, tier, mult):
    count = (1200 if tier == "quick" else 12000) * mult
    out = []
    for _ in range(count):
        ops, meta = R.gen_chain(rng, malformed_prob=0.0, add_at_hops=True, readd_original=True)
        out.append({"ops": ops, "meta": meta})
    out += [gen_many(rng) for _ in range(count // 4)]
    return out


def stats():
    return _stats


def oracle(script, obs):
    meta = script["meta"]
    fails = []
    if any(o == "panic" for o in obs):
        return ["panic"]
    orig_values = set(bytes.fromhex(v) for k, v in meta["orig_headers"])
    for h in meta["hops"]:
        if h["head_idx"] >= len(obs):
            break
        added = [(bytes.fromhex(k), bytes.fromhex(v)) for k, v in h["added"]]
        ho = obs[h["head_idx"]]
        if not ho.startswith("ok "):
            continue  # refused by analysis (e.g. two host fields): C17's subject
        head_bytes = parse_head_write(ho)[1]
        if h.get("seg_from") is not None:
            # concatenation of everything the earlier, smaller writes emitted (a write that overflows emits nothing)
            parts = [parse_head_write(obs[j])[1] for j in range(h["seg_from"], h["head_idx"]) if obs[j].startswith("ok ")]
            head_bytes = b"".join(parts) + head_bytes
        rl, hs = R.parse_head(head_bytes)
        if h["hop"] == 0 and meta.get("hm_idx") is not None:
            mo = obs[meta["hm_idx"]]
            if not mo.startswith("#"):
                return ["headers_map failed (%s) although the head was written" % mo[:40]]
            if parse_header_list_obs(mo) != collapse_map(hs):
                return ["headers_map reports %r, the head that follows carries %r" % (parse_header_list_obs(mo)[:4], collapse_map(hs)[:4])]
        if h["hop"] == 0 and meta.get("qh_idx") is not None and obs[meta["qh_idx"]].startswith("#"):
            want_orig = [(bytes.fromhex(k), bytes.fromhex(v)) for k, v in meta["orig_headers"]]
            if parse_header_list_obs(obs[meta["qh_idx"]]) != want_orig:
                return ["Flow<Prepare>::headers does not return the original request's headers"]
        if added:
            d = str(h["hop"])
            _stats["added_at_depth"][d] = _stats["added_at_depth"].get(d, 0) + 1
            if any(k.lower() in (b"cookie", b"authorization", b"content-length") for k, v in added):
                _stats["sensitive_added"] += 1
        # every added header present, byte for byte, in the order added, ahead of every other header (the ones analysis adds and
        # the inherited ones): the field lines right after the request line are exactly the added ones
        want = [(k.lower(), v) for k, v in added]
        got = hs[:len(want)]
        if got != want:
            j = next((i for i in range(len(want)) if i >= len(got) or got[i] != want[i]), 0)
            fails.append("depth %d: the first %d field lines must be the %d caller-added headers in order; field %d is %r, expected %r" % (
                h["hop"], len(want), len(want), j, got[j] if j < len(got) else None, want[j]))
            return fails
    return fails


def nontrivial(script, obs):
    return any(h["added"] and (h["hop"] >= 1 or len(h["added"]) >= 5) for h in script["meta"]["hops"])
