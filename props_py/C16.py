"""C16 -- Headers the caller adds before sending always reach the wire."""
from .lib import *
from . import redirects as R

RULE = ("flows at redirect depth 0..4 (same chain generator as C13/C14) where at each depth the caller adds 0..3 headers with names from "
        "{cookie, authorization, x-new, connection, accept, host (when the original has none)}; plus dedicated scripts adding 0..60 "
        "headers incl. content-length on flows that send a body, values with non-UTF-8 bytes and white space, headers identical to one of the "
        "original request (also re-attached after a redirect), additions made before and after send_body_despite_method. The head "
        "written afterwards is parsed: the field lines right after the request line must be exactly the added headers, byte for byte, "
        "in the order added (hence ahead of the analysis-added and inherited ones). non-trivial = at least one header added at depth >= 1 or >= 5 "
        "headers added; distinct = distinct op lists")
TRUSTED_BASE = COMMON_TRUSTED_BASE
ASSUMPTIONS = ["restricted to resulting requests that request analysis accepts (C17)"]
_stats = {"added_at_depth": {}, "sensitive_added": 0}
NAMES = [b"cookie", b"authorization", b"x-a", b"x-b", b"connection", b"accept", b"Cookie", b"X-Mixed-Case", b"user-agent", b"te"]


def gen_many(rng):
    n = rng.choice([0, 1, 2, 5, 20, 60])
    method = rng.choice(["GET", "POST", "PUT", "HEAD"])
    orig = group_headers([(b"x-orig", b"o1"), (b"accept", b"orig-accept")])
    ops = ["new " + request_args(method, "1.1", "http", "a.test", "/m", orig)]
    added = []
    for i in range(n):
        nm = rng.choice(NAMES)
        added.append((nm, b"added-%d" % i + rng.choice([b"", b"", b"-caf\xe9", b"-\xff\xfe\x80", b"-\xc3\xa9", b" \t x"])))
    if rng.random() < 0.3:
        # identical to a header of the original request
        added.insert(rng.randrange(0, len(added) + 1), rng.choice([(b"accept", b"orig-accept"), (b"x-orig", b"o1"), (b"X-Orig", b"o1")]))
    if method in BODY_METHODS and rng.random() < 0.5:
        added.insert(rng.randrange(0, len(added) + 1), (b"content-length", b"7"))
    despite_at = rng.randrange(0, len(added) + 1) if (method in ("GET", "HEAD") and rng.random() < 0.5) else None
    for i, (k, v) in enumerate(added):
        if despite_at == i:
            ops.append("despite")       # some headers are added before, some after send_body_despite_method
        ops.append("header %s %s" % (hx(k), hx(v)))
    if despite_at == len(added):
        ops.append("despite")
    ops += ["q_uri", "q_method", "proceed", "write_head #100000"]
    meta = {"orig_headers": [[k.hex(), v.hex()] for k, v in orig], "explicit_host": False,
            "hops": [{"hop": 0, "added": [[k.hex(), v.hex()] for k, v in added], "head_idx": len(ops) - 1}]}
    return {"ops": ops, "meta": meta}


def generate(rng, tier, mult):
    count = (1200 if tier == "quick" else 12000) * mult
    out = []
    for _ in range(count):
        ops, meta = R.gen_chain(rng, malformed_prob=0.0, add_at_hops=True, readd_original=True)
        out.append({"ops": ops, "meta": meta})
    out += [gen_many(rng) for _ in range(count // 4)]
    return out


def stats():
    return _stats


def oracle(script, obs):
    meta = script["meta"]
    fails = []
    if any(o == "panic" for o in obs):
        return ["panic"]
    orig_values = set(bytes.fromhex(v) for k, v in meta["orig_headers"])
    for h in meta["hops"]:
        if h["head_idx"] >= len(obs):
            break
        added = [(bytes.fromhex(k), bytes.fromhex(v)) for k, v in h["added"]]
        ho = obs[h["head_idx"]]
        if not ho.startswith("ok "):
            continue  # refused by analysis (e.g. two host fields): C17's subject
        rl, hs = R.parse_head(parse_head_write(ho)[1])
        if added:
            d = str(h["hop"])
            _stats["added_at_depth"][d] = _stats["added_at_depth"].get(d, 0) + 1
            if any(k.lower() in (b"cookie", b"authorization", b"content-length") for k, v in added):
                _stats["sensitive_added"] += 1
        # every added header present, byte for byte, in the order added, ahead of every other header (the ones analysis adds and
        # the inherited ones): the field lines right after the request line are exactly the added ones
        want = [(k.lower(), v) for k, v in added]
        got = hs[:len(want)]
        if got != want:
            j = next((i for i in range(len(want)) if i >= len(got) or got[i] != want[i]), 0)
            fails.append("depth %d: the first %d field lines must be the %d caller-added headers in order; field %d is %r, expected %r" % (
                h["hop"], len(want), len(want), j, got[j] if j < len(got) else None, want[j]))
            return fails
    return fails


def nontrivial(script, obs):
    return any(h["added"] and (h["hop"] >= 1 or len(h["added"]) >= 5) for h in script["meta"]["hops"])
