"""C13 -- Redirects never leak credentials or stale framing to the next request."""
from .lib import *
from . import redirects as R

RULE = ("redirect chains of 1..4 hops over absolute, scheme-relative, path-absolute and relative Locations mixing 3 hosts, ports and "
        "http/https in both directions (chains that leave and return), both auth policies, statuses 300/301/302/303/307/308, methods "
        "GET/HEAD/POST/PUT/DELETE/OPTIONS/PATCH, original requests carrying authorization / cookie (one or two) / content-length; the "
        "caller also adds its own cookie / authorization at some hops (distinguishable by value). The head bytes of every hop are "
        "inspected. non-trivial = >= 1 hop followed whose original carried a secret; distinct = distinct op lists")
TRUSTED_BASE = COMMON_TRUSTED_BASE
ASSUMPTIONS = ["hosts compare byte-wise as in the code (a target differing from the original only in letter case drops the header: safe direction)"]
_stats = {"auth_kept": 0, "auth_dropped": 0, "hops": {}, "return_chains": 0}


def generate(rng, tier, mult):
    count = (1500 if tier == "quick" else 15000) * mult
    out = []
    for _ in range(count):
        ops, meta = R.gen_chain(rng, malformed_prob=0.0, add_at_hops=True)
        nh = sum(1 for h in meta["hops"] if h.get("followed"))
        _stats["hops"][str(nh)] = _stats["hops"].get(str(nh), 0) + 1
        out.append({"ops": ops, "meta": meta})
    return out


def stats():
    return _stats


def oracle(script, obs):
    meta = script["meta"]
    fails = []
    if any(o == "panic" for o in obs):
        return ["panic"]
    orig = [(bytes.fromhex(k), bytes.fromhex(v)) for k, v in meta["orig_headers"]]
    had_auth = any(k == b"authorization" for k, v in orig)
    orig_host = meta["host"].encode()          # as written in the original URI (case preserved)
    orig_scheme = meta["scheme"].encode()
    hosts_seen = []
    for h in meta["hops"]:
        if h["head_idx"] >= len(obs):
            break
        u = tuple(bytes.fromhex(x) if x is not None else None for x in h["uri"])
        hosts_seen.append(R.host_of(u))
        if h["hop"] == 0:
            continue
        ho = obs[h["head_idx"]]
        if not ho.startswith("ok "):
            added_names = [bytes.fromhex(k).lower() for k, v in h["added"]]
            if ho.startswith("err MethodForbidsBody") and b"content-length" not in added_names and b"transfer-encoding" not in added_names:
                fails.append("hop %d: head of the redirected %s request refused with MethodForbidsBody: the previous request's Content-Length is "
                             "still effective" % (h["hop"], h["method"]))
                return fails
            # any other request that analysis refuses (e.g. caller-added duplicate) is not this property's subject
            continue
        rl, hs = R.parse_head(parse_head_write(ho)[1])
        for k, v in hs:
            if v.startswith(b"orig-cookie"):
                fails.append("hop %d: the previous request's Cookie reached the redirected request" % h["hop"])
                return fails
            if k == b"content-length" and not v.startswith(b"added"):
                fails.append("hop %d: the previous request's Content-Length reached the redirected request" % h["hop"])
                return fails
        leaked = any(v == b"orig-auth" for k, v in hs)
        allowed = (meta["policy"] == "same_host" and R.host_of(u) == orig_host and (u[0] == orig_scheme or u[0] == b"https"))
        if leaked and not allowed:
            fails.append("hop %d: Authorization sent to %s://%s (original %s://%s, policy %s)" % (
                h["hop"], u[0].decode(), u[1].decode(), meta["scheme"], meta["host"], meta["policy"]))
            return fails
        if had_auth:
            if leaked:
                _stats["auth_kept"] += 1
            else:
                _stats["auth_dropped"] += 1
            if allowed and not leaked:
                fails.append("hop %d: Authorization dropped although policy same_host, same host and scheme allow it" % h["hop"])
                return fails
    if len(hosts_seen) >= 3 and hosts_seen[-1] == hosts_seen[0] and any(x != hosts_seen[0] for x in hosts_seen[1:-1]):
        _stats["return_chains"] += 1
    return fails


def nontrivial(script, obs):
    return any(h.get("followed") for h in script["meta"]["hops"]) and len(script["meta"]["orig_headers"]) > 1
