"""C08 -- Length- and close-delimited response bodies arrive verbatim, never over-read."""
from .lib import *

RULE = ("scripts: GET / DELETE / OPTIONS / CONNECT (answered by a non-2xx status) / POST whose late 100 Continue arrives in front of the response in the same window; response head with Content-Length N (N from {0,1,2,5,255,256,65535,65536,70000} "
        "and random; huge values 2^32+1, 2^64-1 with a partial body) or close-delimited (no framing header; Transfer-Encoding without a "
        "final chunked; chunked on an HTTP/1.0 response), followed by "
        "the body and by trailing bytes of a next response; a non-chunked Transfer-Encoding next to the Content-Length, a Location field on non-redirects, heads arriving in two pieces; arrival schedules all-at-once / 1-byte / random, output sizes "
        "{0,1,2,3,random,large}; reads continue after the end; a framed non-empty body must be entered (RecvBody). An eighth of the scripts use the single-call API (Call::try_response / into_body / read / is_ended) with explicit windows. non-trivial = RecvBody reached and >= 1 byte delivered "
        "(or N = 0 handled); distinct = distinct op lists")
TRUSTED_BASE = COMMON_TRUSTED_BASE
ASSUMPTIONS = ["64-bit usize", "head parsing is C05's subject; here heads are simple and always arrive completely before the body phase starts"]

_stats = {"framing": {}, "method": {}}
NEXT = b"HTTP/1.1 200 OK\r\nContent-Length: 1\r\n\r\nZ"


def patt(n, rng):
    base = rng.randrange(256)
    return bytes(((base + i * 13) & 0xFF) for i in range(n))


def gen_one(rng, big):
    close = rng.random() < 0.3
    _stats["framing"]["close" if close else "length"] = _stats["framing"].get("close" if close else "length", 0) + 1
    version = rng.choice(["1.1", "1.1", "1.0"])
    status = rng.choice([200, 200, 201, 201, 404, 500, 301, 302])
    if close:
        n = None
        blen = rng.randrange(0, 400)
        fields = []
        if status in (301, 302):
            status = 200
        # close-delimited although a Transfer-Encoding field is present: chunked is not the final coding, or the response is HTTP/1.0
        k = rng.random()
        if k < 0.15:
            version = "1.1"
            fields = [(b"Transfer-Encoding", rng.choice([b"gzip", b"identity", b"gzip, deflate"]))]
        elif k < 0.3:
            version = "1.0"
            fields = [(b"Transfer-Encoding", b"chunked")]
    else:
        r = rng.random()
        if r < 0.5:
            n = rng.choice([0, 1, 2, 5, 255, 256] + ([65535, 65536, 70000] if big else []))
        elif r < 0.93:
            n = rng.randrange(0, 70001 if big else 500)
        else:
            n = rng.choice([2 ** 32 + 1, 2 ** 64 - 1])
        blen = n if n <= 70000 else rng.randrange(0, 300)
        fields = [(b"Content-Length", str(n).encode())]
        if rng.random() < 0.15:
            # a Transfer-Encoding that does not list chunked does not frame the body: the Content-Length still does
            fields.insert(rng.choice([0, 1]), (b"Transfer-Encoding", rng.choice([b"identity", b"gzip", b"deflate, gzip"])))
    if status in (301, 302):
        fields.append((b"Location", b"/next"))
    elif status == 201 or rng.random() < 0.1:
        fields.insert(0, (b"Location", b"/created/7"))      # a Location field on a response that is not a redirect
    if rng.random() < 0.2:
        fields.append((b"Connection", b"keep-alive"))
    head = render_response_head(version, status, b"OK", fields)
    body = patt(blen, rng)
    trailing = NEXT if (n is not None and n <= 70000) or close else b""
    stream = head + body + trailing
    method = rng.choice(["GET", "GET", "DELETE", "OPTIONS", "CONNECT", "LATE100", "LATE100"])
    if method == "CONNECT" and 200 <= status <= 299:
        # a 2xx answer to CONNECT has no body; every other answer to CONNECT is framed like any response
        status = rng.choice([404, 407, 500, 503])
        head = render_response_head(version, status, b"OK", [f for f in fields if f[0] != b"Location"])
        stream = head + body + trailing
    _stats["method"][method] = _stats["method"].get(method, 0) + 1
    pre = b""
    if method == "LATE100":
        # the client stopped waiting for 100 Continue and sent the body; the late 100 arrives in front of the response, in the same window
        pre = b"HTTP/1.1 100 Continue\r\n\r\n"
        stream = pre + stream
        ops = [op_new("POST", "1.1", "http", "a.test", "/", [("expect", "100-continue"), ("content-length", "2")]), "proceed", "write_head #4096",
               "proceed", rng.choice(["raw_try100 x", "raw_try100 %s" % hx(b"HTTP/1.1 1")]), "proceed", "write_body %s #100" % hx(b"hi"), "proceed",
               "stream %s" % hx(stream)]
        first = rng.choice([len(pre) + len(head), len(pre) + len(head), len(pre) + len(head) + min(3, blen), len(pre) - 3, len(pre)])
        ops += ["arrive %s" % num(first), "try_response", "arrive %s" % num(max(0, len(pre) + len(head) - first)), "try_response", "try_response",
                "q_can_proceed", "proceed", "q_body_mode", "q_can_proceed"]
    else:
        ops = [op_new(method, "1.1", "http", "a.test", "/", []),
               "proceed", "write_head #4096", "proceed", "stream %s" % hx(stream)]
        if method != "CONNECT" and rng.random() < 0.4:
            # any route into RecvResponse (lib.recv_context), optionally an interim 1xx response in front of the head
            ctx, prefix, info = recv_context(rng)
            _stats["method"]["ctx:" + info["kind"]] = _stats["method"].get("ctx:" + info["kind"], 0) + 1
            pre = prefix + (rng.choice(INTERIM_HEADS[:3]) if rng.random() < 0.3 else b"")
            stream = pre + stream
            ops = ctx + ["stream %s" % hx(stream)]
            if pre:
                ops += ["arrive %s" % num(len(pre)), "try_response"] + (["try_response"] if prefix and len(pre) > len(prefix) else [])
        if rng.random() < 0.4 and status // 100 != 3:
            # the head arrives in two pieces (cut anywhere, often right after a field line): nothing is returned before it is complete
            ends = [k + 2 for k in range(len(head) - 2) if head[k:k + 2] == b"\r\n"][:-1]
            cut = rng.choice(ends) if ends and rng.random() < 0.6 else rng.randrange(1, len(head))
            ops += ["arrive %s" % num(cut), "try_response", "arrive %s" % num(len(head) - cut)]
        else:
            ops += ["arrive %s" % num(len(head))]
        ops += ["try_response", "q_can_proceed", "proceed", "q_body_mode", "q_can_proceed"]
    # arrival + read schedule
    mode = rng.choice(["all", "one", "random", "random"])
    remaining = len(stream) - len(head) - len(pre)
    steps = 0
    total_target = blen + len(trailing)
    arrived = 0
    max_steps = 40 if not big else 120
    while steps < max_steps:
        if mode == "all":
            k = remaining
        elif mode == "one":
            k = 1
        else:
            k = rng.choice([0, 1, 2, 3, rng.randrange(0, 50), rng.randrange(0, max(2, remaining + 1))])
        k = min(k, total_target - arrived)
        if k > 0 or rng.random() < 0.1:
            ops.append("arrive %s" % num(k))
            arrived += k
        cap = rng.choice([0, 1, 2, 3, rng.randrange(0, 64), 100000, 100000])
        ops.append("read %s" % num(cap))
        if rng.random() < 0.25:
            ops.append("q_can_proceed")
        steps += 1
        if mode == "all" and steps > 3 and rng.random() < 0.5:
            break
    ops += ["q_can_proceed", "read #100000", "read #100000", "q_can_proceed", "q_body_mode", "proceed", "q_must_close"]
    return {"ops": ops, "meta": {"n": n, "head": len(head), "body": body.hex(), "trailing": len(trailing), "status": status, "pre": len(pre)}}


def gen_call(rng):
    """The same bodies through the single-call API (Call::try_response, into_body, read, is_ended): the windows are explicit, so the
    generator presents exactly the unconsumed bytes itself (it knows what a read must consume: min(window, output space, remaining))."""
    close = rng.random() < 0.3
    version = rng.choice(["1.1", "1.0"])
    if close:
        n = None
        blen = rng.randrange(0, 200)
        fields = [] if rng.random() < 0.6 else [(b"Transfer-Encoding", b"gzip")]
        if fields:
            version = "1.1"
    else:
        n = rng.choice([0, 1, 2, 5, 255, 256, rng.randrange(0, 400)])
        blen = n
        fields = [(b"Content-Length", str(n).encode())]
    method = rng.choice(["GET", "DELETE", "POST"])
    status = rng.choice([200, 404, 500])
    head = render_response_head(version, status, b"OK", fields)
    body = patt(blen, rng)
    rest = body + NEXT
    ops = call_recv_prelude(method) + ["raw_try_response %s" % hx(head + rest[:rng.choice([0, 0, 3])]), "q_is_finished", "proceed"]
    expect = []          # per raw_read: (op index, consumed = produced, data)
    pos = 0
    for _ in range(rng.randrange(1, 12)):
        k = rng.choice([0, 1, 2, 3, rng.randrange(0, 40), len(rest)])
        win = rest[pos:pos + k]
        cap = rng.choice([0, 1, 2, 3, rng.randrange(0, 64), 100000])
        want = min(len(win), cap) if close else min(len(win), cap, n - pos)
        expect.append((len(ops), want))
        ops.append("raw_read %s %s" % (hx(win), num(cap)))
        pos += want
        if rng.random() < 0.3:
            expect.append((len(ops), "ended" if (not close and pos == n) else "open"))
            ops.append("q_is_finished")
    _stats["framing"]["call-api"] = _stats["framing"].get("call-api", 0) + 1
    return {"ops": ops, "meta": {"n": n, "head": len(head), "body": body.hex(), "trailing": len(NEXT), "status": status, "api": "call",
                                 "expect": expect, "enter": len(ops) - 1 - len([e for e in expect])}}


def oracle_call(script, obs):
    meta = script["meta"]
    ops = script["ops"]
    if any(o == "panic" for o in obs):
        return ["panic (single-call API)"]
    n = meta["n"]
    close = n is None
    body = bytes.fromhex(meta["body"])
    i = next(k for k, op in enumerate(ops) if op.startswith("raw_try_response"))
    if not obs[i].startswith("some #%d " % meta["head"]):
        return ["single-call API: the head was not returned with exactly its %d bytes consumed: %s" % (meta["head"], obs[i][:50])]
    if obs[i + 1] != "true":
        return ["single-call API: Call::is_finished false after the head"]
    want_enter = "call RecvBody" if (close or True) else None
    if obs[i + 2] != "call RecvBody":
        return ["single-call API: Call::into_body gave %s for a %s body" % (obs[i + 2], "close-delimited" if close else "Content-Length %d" % n)]
    delivered = b""
    for idx, want in meta["expect"]:
        o = obs[idx]
        if isinstance(want, str):
            if (o == "true") != (want == "ended"):
                return ["single-call API: Call::is_ended = %s after %d of %s body bytes" % (o, len(delivered), "N=%d" % n if not close else "a close-delimited body")]
            continue
        p = ops[idx].split(" ")
        win = unhex(p[1])
        if not o.startswith("ok "):
            return ["single-call API: read failed: %s" % o]
        ci, co, data = parse_counts(o)
        if ci != want or co != want or data != win[:want]:
            return ["single-call API: expected %d bytes verbatim (window %d, cap %s), got consumed=%d produced=%d" % (want, len(win), p[2], ci, co)]
        delivered += data
    if delivered != (body + NEXT)[:len(delivered)]:
        return ["single-call API: delivered bytes differ from the offered bytes"]
    return []


def big_reads():
    """Deterministic: bodies larger than 64 KiB / 1 MiB read in ONE call with a window and an output buffer that hold all of it."""
    out = []
    for n in (65537, 70000, 1048577):
        head = render_response_head("1.1", 200, b"OK", [(b"Content-Length", str(n).encode())])
        body = bytes(((i * 13 + 5) & 0xFF) for i in range(n))
        stream = head + body + NEXT
        ops = [op_new("GET"), "proceed", "write_head #4096", "proceed", "stream %s" % hx(stream), "arrive %s" % num(len(head)), "try_response", "q_can_proceed",
               "proceed", "q_body_mode", "arrive %s" % num(n + len(NEXT)), "read %s" % num(n + 100), "q_can_proceed", "read #100", "proceed", "q_must_close"]
        out.append({"ops": ops, "meta": {"n": n, "head": len(head), "body": body.hex(), "trailing": len(NEXT), "status": 200, "pre": 0}})
    return out


def generate(rng, tier, mult):
    count = (1200 if tier == "quick" else 10000) * mult
    return big_reads() + [gen_one(rng, big=(i % 25 == 0)) for i in range(count)] + [gen_call(rng) for _ in range(count // 8)]


def stats():
    return _stats


def corpus():
    head = render_response_head("1.1", 200, b"OK", [(b"Content-Length", b"3")])
    stream = head + b"abc" + NEXT
    base = [op_new("GET"), "proceed", "write_head #4096", "proceed", "stream %s" % hx(stream), "arrive #%d" % len(stream),
            "try_response", "proceed"]
    return [{"ops": base + ["read #2", "read #100", "read #100", "q_can_proceed", "proceed", "q_must_close"],
             "meta": {"n": 3, "head": len(head), "body": b"abc".hex(), "trailing": len(NEXT), "status": 200}}]


def oracle(script, obs):
    if script["meta"].get("api") == "call":
        return oracle_call(script, obs)
    fails = []
    meta = script["meta"]
    n = meta["n"]
    body = bytes.fromhex(meta["body"])
    ops = script["ops"]
    stream = b""
    arrived = 0
    consumed = 0
    delivered = b""
    in_body = False
    got_head = False
    left_response = False
    close = n is None
    for i, op in enumerate(ops):
        if i >= len(obs):
            break
        o = obs[i]
        p = op.split(" ")
        if o == "panic":
            fails.append("op %d (%s): panic" % (i, p[0]))
            break
        if p[0] == "stream":
            stream = unhex(p[1])
        elif p[0] == "arrive":
            arrived = min(len(stream), arrived + unnum(p[1]))
        elif p[0] == "try_response":
            if got_head:
                continue
            if o.startswith("none #") and (meta.get("pre") or arrived < meta.get("pre", 0) + meta["head"]):
                consumed += unnum(o.split(" ")[1])      # a late 100 Continue skipped (or nothing yet)
                continue
            if not o.startswith("some "):
                fails.append("op %d: head not returned: %s" % (i, o[:60]))
                break
            used = parse_response_obs(o)[0]
            consumed += used
            if consumed <= meta.get("pre", 0):
                continue                                  # an interim 1xx response in front of the response proper
            got_head = True
            if consumed != meta.get("pre", 0) + meta["head"]:
                fails.append("op %d: %d bytes consumed up to the end of the head, expected %d" % (i, consumed, meta.get("pre", 0) + meta["head"]))
                break
        elif p[0] == "proceed" and got_head and not left_response and o.startswith("state"):
            left_response = True
            expect_body = close or n > 0
            if expect_body and o != "state RecvBody":
                fails.append("op %d: a non-empty body is framed (%s) but the flow went to %s: the body bytes are left on the connection" % (
                    i, "close-delimited" if close else "Content-Length %d" % n, o))
                break
            if o == "state RecvBody":
                in_body = True
        elif p[0] == "proceed" and o.startswith("state") and in_body:
            in_body = False
            # proceeding out of the body state
            if not close and len(delivered) != n:
                fails.append("op %d: left the body state after %d of %d bytes" % (i, len(delivered), n))
        elif p[0] == "proceed" and not in_body and i > 7 and o.startswith("state") and n == 0:
            pass
        elif p[0] == "read" and in_body:
            cap = unnum(p[1])
            win = stream[consumed:arrived]
            if not o.startswith("ok "):
                fails.append("op %d: read failed: %s" % (i, o))
                break
            ci, co, data = parse_counts(o)
            if close:
                want = min(len(win), cap)
            else:
                want = min(len(win), cap, n - len(delivered))
            if ci != want or co != want or data != win[:want]:
                fails.append("op %d: expected %d bytes verbatim (window %d, cap %d), got consumed=%d produced=%d" % (i, want, len(win), cap, ci, co))
                break
            consumed += ci
            delivered += data
            if not close and consumed > meta.get("pre", 0) + meta["head"] + n:
                fails.append("op %d: over-read: consumed %d beyond head+N=%d" % (i, consumed, meta.get("pre", 0) + meta["head"] + n))
                break
        elif p[0] == "q_can_proceed" and in_body:
            can = (o == "true")
            if close:
                if not can:
                    fails.append("op %d: close-delimited body must always be able to proceed" % i)
                    break
            else:
                if can != (len(delivered) == n):
                    fails.append("op %d: complete=%s but delivered %d of %d" % (i, can, len(delivered), n))
                    break
        elif p[0] == "q_body_mode" and in_body:
            if close and o != "close":
                fails.append("op %d: body mode %s, expected close" % (i, o))
            if not close and o != "length #%d" % (n - len(delivered)):
                # body_mode reports the remaining count (documented quirk, see TODO in body.rs)
                fails.append("op %d: body mode %s, expected length #%d" % (i, o, n - len(delivered)))
        elif p[0] == "q_must_close" and close:
            if o != "true":
                fails.append("op %d: close-delimited body but connection not marked for closing" % i)
    if not close and n <= 70000 and delivered != body[:len(delivered)]:
        fails.append("delivered bytes are not a prefix of the body")
    if close and delivered != (body + NEXT)[:len(delivered)]:
        fails.append("close-delimited: delivered bytes differ from the offered bytes")
    return fails


def nontrivial(script, obs):
    if script["meta"].get("api") == "call":
        return any(o == "call RecvBody" for o in obs)
    reached = any(o == "state RecvBody" for o in obs)
    moved = any(op.startswith("read") and o.startswith("ok ") and parse_counts(o)[0] > 0 for op, o in zip(script["ops"], obs))
    return (reached and moved) or script["meta"]["n"] == 0
