"""C04 -- Content-Length request body is forwarded verbatim and never exceeds the length."""
from .lib import *

RULE = ("scripts: new <POST|PUT|PATCH> with content-length N (N from {0,1,2,5,255,256,65535,65536,70000,2^32-1,2^32,"
        "2^32+1,2^64-1} and random 0..70000; the length given on the original request or added in Prepare, on a body method or on "
        "GET/DELETE/OPTIONS with send_body_despite_method, directly or through the Expect handshake), head written, then 1..14 body operations drawn from: write with input "
        "length in {0,1,left-1,left,left+1,random,cap-limited}, output size in {0,1,2,3,random,large}, "
        "consume_direct_write with amounts around `left`, and read-only queries; thorough adds whole-body loops. "
        "non-trivial = the flow reached SendBody and at least one write or direct write accounted for >= 1 byte; "
        "distinct = distinct op lists")
TRUSTED_BASE = COMMON_TRUSTED_BASE
ASSUMPTIONS = ["64-bit usize (the harness runs on x86_64 only)",
               "the theorems are stated for a call in its body phase with a sized writer (sized_body); that a request "
               "with Content-Length N reaches that state is covered by the correspondence scripts (every script starts at Flow::new)"]

NS = [0, 1, 2, 5, 255, 256, 65535, 65536, 70000, 2 ** 32 - 1, 2 ** 32, 2 ** 32 + 1, 2 ** 64 - 1]
_stats = {"n_values": {}, "ops": 0, "entry": {}}


def patt(n, rng):
    base = rng.randrange(256)
    return bytes(((base + i * 7) & 0xFF) for i in range(n))


def entry(rng, method, version, n, kind=None):
    """The ways a flow with a Content-Length body of n bytes reaches SendBody: the length on the original request or added in Prepare,
    a body-carrying method or any method with send_body_despite_method, directly or through the Expect handshake."""
    kind = kind or rng.choice(["original", "original", "original", "added", "added", "despite-original", "despite-added", "expect", "expect-added"])
    _stats["entry"][kind] = _stats["entry"].get(kind, 0) + 1
    cl = ("content-length", str(n))
    extra = [("x-a", "b")] if rng.random() < 0.3 else []
    if rng.random() < 0.3:
        extra.append(("host", "own-host.test"))      # the request names its Host itself: analysis has nothing to add
    add = "header %s %s" % (hx(b"content-length"), hx(str(n)))
    if kind == "original":
        return [op_new(method, version, "http", "a.test", "/up", extra + [cl]), "proceed", "write_head #4096", "proceed"]
    if kind == "added":
        return [op_new(method, version, "http", "a.test", "/up", extra), add, "proceed", "write_head #4096", "proceed"]
    if kind == "despite-original":
        m = rng.choice(["GET", "DELETE", "OPTIONS"])
        return [op_new(m, "1.1", "http", "a.test", "/up", extra + [cl]), "despite", "proceed", "write_head #4096", "proceed"]
    if kind == "despite-added":
        m = rng.choice(["GET", "DELETE", "OPTIONS"])
        first, second = rng.choice([("despite", add), (add, "despite")])
        return [op_new(m, "1.1", "http", "a.test", "/up", extra), first, second, "proceed", "write_head #4096", "proceed"]
    ex = ("expect", "100-continue")
    if kind == "expect":
        ops = [op_new(method, version, "http", "a.test", "/up", extra + [ex, cl]), "proceed", "write_head #4096", "proceed"]
    else:
        ops = [op_new(method, version, "http", "a.test", "/up", extra + [ex]), add, "proceed", "write_head #4096", "proceed"]
    return ops + [rng.choice(["raw_try100 %s" % hx(b"HTTP/1.1 100 Continue\r\n\r\n"), "raw_try100 x"]), "proceed"]


def gen_one(rng, big):
    n = rng.choice(NS) if rng.random() < 0.6 else rng.randrange(0, 70001)
    key = "small" if n <= 70000 else "large"
    _stats["n_values"][key] = _stats["n_values"].get(key, 0) + 1
    method = rng.choice(BODY_METHODS)
    version = "1.1" if method != "POST" or rng.random() < 0.7 else "1.0"
    if rng.random() < 0.5:
        ops = entry(rng, method, version, n)
    else:
        ops, route = send_context(rng, ("length", n))
        _stats["entry"]["ctx:" + route] = _stats["entry"].get("ctx:" + route, 0) + 1
    left = n
    nops = rng.randrange(1, 15)
    for _ in range(nops):
        r = rng.random()
        if r < 0.62:
            choice = rng.random()
            maxlen = 70001 if big else 600
            if choice < 0.15:
                ln = 0
            elif choice < 0.3:
                ln = 1
            elif choice < 0.42:
                ln = min(max(left - 1, 0), maxlen)
            elif choice < 0.6:
                ln = min(left, maxlen)
            elif choice < 0.72:
                ln = min(left + 1, maxlen)
            else:
                ln = rng.randrange(0, min(maxlen, 300))
            cap = rng.choice([0, 1, 2, 3, rng.randrange(0, 300), 100000, ln, max(ln - 1, 0)])
            ops.append("write_body %s %s" % (hx(patt(ln, rng)), num(cap)))
            if ln <= left:
                left -= min(ln, cap, left)
        elif r < 0.8:
            amt = rng.choice([0, 1, left, left + 1, max(left - 1, 0), rng.randrange(0, 100)])
            amt = min(amt, 2 ** 64 - 1)  # the argument is a usize
            ops.append("direct %s" % num(amt))
            if amt <= left:
                left -= amt
        elif r < 0.9:
            ops.append("q_can_proceed")
        elif r < 0.95:
            ops.append("q_max_input %s" % num(rng.choice([0, 1, 17, 5000, 20000])))
        else:
            ops.append("q_is_chunked")
    ops.append("q_can_proceed")
    if rng.random() < 0.5:
        ops.append("write_body x %s" % num(rng.choice([0, 10])))
        ops.append("q_can_proceed")
        ops.append("proceed")
    return {"ops": ops, "meta": {"n": n}}


def gen_loop(rng):
    """Whole-body loop: send exactly N bytes with a fixed buffer, then finish."""
    n = rng.choice([0, 1, 5, 255, 256, 4096, 65535, 65536, 70000])
    cap = rng.choice([1, 2, 3, 7, 64, 1000, 100000])
    if n // cap > 200:
        cap = max(cap, n // 150 + 1)
    ops = [op_new("POST", "1.1", "http", "a.test", "/", [("content-length", str(n))]), "proceed",
           "write_head #4096", "proceed", "body %s" % hx(patt(n, rng))]
    sent = 0
    while sent < n:
        ops.append("write_from %s %s" % (num(n), num(cap)))
        sent += min(cap, n - sent)
    ops += ["q_can_proceed", "write_from #10 #10", "q_can_proceed", "proceed"]
    return {"ops": ops, "meta": {"n": n, "loop": True}}


def big_writes():
    """Deterministic: more than one chunk size / 64 KiB / 1 MiB written in ONE call (input, output and remaining length all larger)."""
    out = []
    for n in (10241, 65537, 1048577):
        ops = [op_new("POST", "1.1", "http", "a.test", "/up", [("content-length", str(n + 5))]), "proceed", "write_head #4096", "proceed",
               "write_body z%d %s" % (n, num(n + 100)), "q_can_proceed", "write_body %s #100" % hx(b"12345"), "q_can_proceed", "proceed"]
        out.append({"ops": ops, "meta": {"n": n + 5}})
    return out


def generate(rng, tier, mult):
    count = (1500 if tier == "quick" else 12000) * mult
    out = big_writes() + [gen_one(rng, big=(i % 40 == 0)) for i in range(count)]
    out += [gen_loop(rng) for _ in range(20 if tier == "quick" else 200)]
    _stats["ops"] = sum(len(s["ops"]) for s in out)
    return out


def stats():
    return _stats


def corpus():
    # minimal regression scripts (off-by-one boundaries)
    base = [op_new("POST", "1.1", "http", "a.test", "/", [("content-length", "5")]), "proceed", "write_head #4096", "proceed"]
    return [
        {"ops": base + ["write_body %s #100" % hx(b"hello!"), "q_can_proceed"], "meta": {"n": 5}},
        {"ops": base + ["write_body %s #100" % hx(b"hello"), "q_can_proceed", "write_body %s #100" % hx(b"x"), "write_body x #0"], "meta": {"n": 5}},
        {"ops": base + ["direct #5", "q_can_proceed", "direct #1"], "meta": {"n": 5}},
        {"ops": base + ["direct #6", "q_can_proceed", "write_body %s #2" % hx(b"hello"), "direct #3", "q_can_proceed"], "meta": {"n": 5}},
    ]


def oracle(script, obs):
    """Independent restatement of C04 on the implementation's observations."""
    fails = []
    ops = script["ops"]
    n = script["meta"]["n"]
    left = n
    in_body = False
    must_be_finished = False
    body = b""
    sent = 0
    for i, op in enumerate(ops):
        if i >= len(obs):
            break
        o = obs[i]
        p = op.split(" ")
        if o == "panic":
            fails.append("op %d (%s): panic" % (i, p[0]))
            break
        if p[0] == "proceed" and o == "state SendBody":
            in_body = True
            continue
        if p[0] == "body":
            body = unhex(p[1])
            sent = 0
            continue
        if not in_body:
            continue
        if p[0] in ("write_body", "write_from"):
            if p[0] == "write_body":
                x = unhex(p[1])
                cap = unnum(p[2])
            else:
                x = body[sent:sent + unnum(p[1])]
                cap = unnum(p[2])
            refused = len(x) > left or (len(x) > 0 and must_be_finished)
            if refused:
                if not o.startswith("err"):
                    fails.append("op %d: write of %d bytes with %d remaining (finished=%s) was not refused: %s" % (i, len(x), left, must_be_finished, o[:80]))
                    break
            else:
                if not o.startswith("ok "):
                    fails.append("op %d: legitimate write refused: %s" % (i, o))
                    break
                ci, co, data = parse_counts(o)
                want = min(len(x), cap, left)
                if ci != want or co != want or data != x[:want]:
                    fails.append("op %d: expected %d bytes verbatim, got consumed=%d produced=%d" % (i, want, ci, co))
                    break
                left -= want
                if p[0] == "write_from":
                    sent += want
                if left == 0:
                    must_be_finished = True
        elif p[0] == "direct":
            a = unnum(p[1])
            if a > left:
                if not o.startswith("err"):
                    fails.append("op %d: direct write of %d with %d remaining not refused" % (i, a, left))
                    break
            else:
                if o != "ok":
                    fails.append("op %d: legitimate direct write refused: %s" % (i, o))
                    break
                left -= a
                if left == 0:
                    must_be_finished = True
        elif p[0] == "q_can_proceed":
            fin = (o == "true")
            if fin and left != 0:
                fails.append("op %d: finished with %d bytes remaining" % (i, left))
                break
            if must_be_finished and not fin:
                fails.append("op %d: all %d bytes accounted for and end signalled, but not finished" % (i, n))
                break
        elif p[0] == "q_is_chunked":
            if o != "false":
                fails.append("op %d: a request that declares Content-Length %d reports is_chunked = %s" % (i, n, o))
                break
        elif p[0] == "q_max_input":
            if o != "#%d" % unnum(p[1]):
                fails.append("op %d: max input for a sized body must be the output size: %s" % (i, o))
                break
        elif p[0] == "proceed":
            if must_be_finished and not o.startswith("state RecvResponse"):
                fails.append("op %d: finished body but proceed gave %s" % (i, o))
                break
            if o.startswith("state"):
                in_body = False
    if left > n:
        fails.append("running total negative")
    return fails


def nontrivial(script, obs):
    reached = any(o == "state SendBody" for o in obs)
    moved = False
    for op, o in zip(script["ops"], obs):
        if (op.startswith("write_body") or op.startswith("write_from")) and o.startswith("ok "):
            if parse_counts(o)[0] > 0:
                moved = True
        if op.startswith("direct") and o == "ok" and unnum(op.split(" ")[1]) > 0:
            moved = True
    return reached and moved
