"""C12 -- No server byte sequence can panic, hang or desynchronise the client."""
import itertools
from .lib import *

RULE = ("server-facing calls in five state classes (Await100 after POST+Expect; RecvResponse after GET / HEAD / POST body; RecvBody "
        "with chunked, Content-Length and close-delimited framing) fed with (i) EVERY string over the 20-symbol alphabet "
        "{H T P / 1 . 0 2 3 SP : ; CR LF a f 0x80 , + -} up to length 3 (quick) / 4 (thorough; length 4 completely at the first parse position of Await100, RecvResponse and the chunked reader, a tenth elsewhere), placed where the call parses "
        "(start of the head, after a valid status line, start of the chunked coding, after a chunk size line), and (ii) grammar-aware "
        "mutations of valid exchanges (bit flips, deletions, duplications, splices, oversize numbers and size lines, stray CR/LF, "
        "129+ fields, 70000-byte field name, all five close conditions at once, every combination of the close conditions on complete "
        "and on truncated 3xx/403 heads), under all-at-once, 1-byte and random arrival "
        "schedules, output sizes {0,1,2,3,7,large}, boundary stop on/off, and raw (undisciplined) windows for try_response/read. "
        "After the hostile bytes every script calls proceed and the calls of the following state again. Oracle (implementation only): "
        "no panic, no hang (per-shard time limit), consumed <= offered, produced <= output space, produced bytes are a subsequence of "
        "the consumed window. non-trivial = at least one server-facing call executed; distinct = distinct op lists")
TRUSTED_BASE = COMMON_TRUSTED_BASE
ASSUMPTIONS = ["64-bit usize",
               "try_read_100 is called under the re-presentation discipline (a bare 100 offered after a refusal of the same "
               "stream is the documented misuse excluded in DESIGN.md C12)"]
EXHAUSTIVE = {"quick": False, "thorough": False}
_stats = {"classes": {}, "kinds": {}}

ALPHABET = [b"H", b"T", b"P", b"/", b"1", b".", b"0", b"2", b"3", b" ", b":", b";", b"\r", b"\n", b"a", b"f", b"\x80", b",", b"+", b"-"]
CAPS = [0, 1, 2, 3, 7, 100000]


def setup(cls, rng):
    """ops that bring a flow to the state class, and the valid stream prefix the hostile bytes follow."""
    if cls == "await100":
        ver = rng.choice(["1.1", "1.1", "1.0"])
        hs = [("expect", "100-continue")]
        if rng.random() < 0.5:
            hs.append(("content-length", "2"))
        if rng.random() < 0.3:
            hs.append(("connection", "close"))
        return [op_new("POST", ver, "http", "a.test", "/p", hs), "proceed", "write_head #4096", "proceed"], b""
    if cls == "recv_get":
        m = rng.choice(["GET", "GET", "HEAD", "DELETE", "CONNECT"])
        ver = "1.1" if m in ("DELETE", "CONNECT") else rng.choice(["1.1", "1.0"])
        hs = [("connection", "close")] if rng.random() < 0.2 else []
        return [op_new(m, ver, "http", "a.test", "/g", hs), "proceed", "write_head #4096", "proceed"], b""
    if cls == "recv_post":
        return [op_new("POST", "1.1", "http", "a.test", "/p", [("content-length", "2")]), "proceed", "write_head #4096", "proceed",
                "write_body %s #100" % hx(b"hi"), "proceed"], b""
    base = [op_new("GET", "1.1", "http", "a.test", "/b", []), "proceed", "write_head #4096", "proceed"]
    if cls == "body_chunked":
        return base, render_response_head("1.1", 200, b"OK", [(b"Transfer-Encoding", b"chunked")])
    if cls == "body_length":
        n = rng.choice([1, 3, 5, 17])
        return base, render_response_head("1.1", 200, b"OK", [(b"Content-Length", b"%d" % n)])
    if cls == "body_close":
        return base, render_response_head(rng.choice(["1.0", "1.1"]), 200, b"OK", [])
    raise ValueError(cls)


def tail_ops(rng):
    """state-advancing calls and the next state's calls, after the hostile bytes."""
    anf = "as_new_flow %s" % rng.choice(["never", "same_host"])      # permitted (and state-advancing) only when the flow is in Redirect
    return ["q_can_proceed", "proceed", anf, "try_response", "q_can_proceed", "proceed", "read #5", "read #100000", "q_can_proceed", "proceed",
            "q_must_close", "q_close_reason", "proceed", "q_must_close"]


def feed_ops(cls, total, rng, sched, prefix_len):
    """arrival schedule + the server-facing call of the class."""
    ops = []
    if sched == "all":
        cuts = [total]
    elif sched == "one":
        cuts = list(range(1, total + 1))
    else:
        k = rng.randrange(1, 5)
        cuts = sorted(set([rng.randrange(1, total + 1) for _ in range(k)] + [total])) if total > 0 else [0]
    pos = 0
    in_body = False
    for c in cuts:
        ops.append("arrive %s" % num(c - pos))
        pos = c
        if cls == "await100":
            ops.append("try100")
            if rng.random() < 0.3:
                ops.append("q_keep_await")
        elif cls in ("recv_get", "recv_post"):
            ops.append("try_response")
        else:
            if not in_body:
                # head first (once it has arrived completely the flow can move on)
                ops += ["try_response", "q_can_proceed", "proceed"]
                if c >= prefix_len:
                    in_body = True
                    if rng.random() < 0.4:
                        ops.append("stop #1")
            if in_body:
                ops.append("read %s" % num(rng.choice(CAPS)))
                if rng.random() < 0.2:
                    ops.append("q_boundary")
    # a few more calls once everything has arrived
    if cls == "await100":
        ops += ["try100", "proceed"]
        # whichever way it went: body path or response path
        ops += ["write_body %s #100" % hx(b"hi"), "write_body x #100", "proceed", "try_response"]
    elif cls in ("recv_get", "recv_post"):
        ops += ["try_response"]
    else:
        ops += ["read #4", "read #100000", "read #100000"]
    return ops


def build(cls, hostile, rng, sched, kind):
    ops, prefix = setup(cls, rng)
    stream = prefix + hostile
    ops = ops + ["stream %s" % hx(stream)] + feed_ops(cls, len(stream), rng, sched, len(prefix)) + tail_ops(rng)
    _stats["classes"][cls] = _stats["classes"].get(cls, 0) + 1
    _stats["kinds"][kind] = _stats["kinds"].get(kind, 0) + 1
    return {"ops": ops, "meta": {"cls": cls, "kind": kind, "stream": stream.hex() if len(stream) < 4000 else None, "sched": sched}}


def build_raw(cls, windows, rng, kind):
    """undisciplined windows: raw_try_response / raw_read with arbitrary, unrelated windows."""
    ops, prefix = setup(cls, rng)
    if cls in ("recv_get", "recv_post"):
        for w_ in windows:
            ops.append("raw_try_response %s" % hx(w_))
    else:
        ops += ["stream %s" % hx(prefix), "arrive #100000", "try_response", "proceed"]
        if rng.random() < 0.5:
            ops.append("stop #1")
        for w_ in windows:
            ops.append("raw_read %s %s" % (hx(w_), num(rng.choice(CAPS))))
    ops += tail_ops(rng)
    _stats["classes"][cls + "/raw"] = _stats["classes"].get(cls + "/raw", 0) + 1
    _stats["kinds"][kind] = _stats["kinds"].get(kind, 0) + 1
    return {"ops": ops, "meta": {"cls": cls, "kind": kind, "raw": True}}


# ------------------------------------------------------------------------------------------ hostile byte strings

def alphabet_strings(maxlen):
    for n in range(0, maxlen + 1):
        for t in itertools.product(ALPHABET, repeat=n):
            yield b"".join(t)


def valid_exchange(rng):
    """A valid response (head + body) in one of the framings, as bytes, and its class."""
    kind = rng.choice(["chunked", "length", "close", "nobody", "redirect", "100then"])
    fields = []
    for _ in range(rng.randrange(0, 4)):
        fields.append((rng.choice(NAMES), gen_field_value(rng)))
    if rng.random() < 0.3:
        fields.append((b"Connection", rng.choice([b"close", b"keep-alive", b"Close"])))
    if kind == "chunked":
        sizes = [rng.choice([1, 2, 3, 15, 16, 255, 256]) for _ in range(rng.randrange(0, 4))]
        datas = [bytes((i * 11 + 5) & 255 for i in range(n)) for n in sizes]
        body = enc_chunked(datas, ext=rng.choice([b"", b";x=y", b" "]), trailers=rng.choice([(), (b"X-T: v",), (b"A: b", b"C: d")]),
                           upper=rng.random() < 0.3, lead_zeros=rng.choice([0, 0, 2]))
        head = render_response_head("1.1", 200, b"OK", fields + [(b"Transfer-Encoding", b"chunked")])
    elif kind == "length":
        n = rng.choice([0, 1, 5, 300])
        body = bytes((i * 3 + 1) & 255 for i in range(n))
        head = render_response_head(rng.choice(["1.1", "1.0"]), rng.choice([200, 404, 500]), b"OK", fields + [(b"Content-Length", b"%d" % n)])
    elif kind == "close":
        body = b"until close " * rng.randrange(0, 5)
        head = render_response_head(rng.choice(["1.1", "1.0"]), 200, b"OK", fields)
    elif kind == "nobody":
        body = b""
        head = render_response_head("1.1", rng.choice([204, 304]), b"No", fields)
    elif kind == "redirect":
        body = b""
        head = render_response_head("1.1", rng.choice([301, 302, 307]), b"Moved", fields + [(b"Location", b"/next")] + ([(b"Content-Length", b"0")] if rng.random() < 0.5 else []))
    else:
        body = b""
        head = b"HTTP/1.1 100 Continue\r\n\r\n" + render_response_head("1.1", 200, b"OK", fields + [(b"Content-Length", b"0")])
    return head + body + (b"HTTP/1.1 200 OK\r\n" if rng.random() < 0.5 else b""), kind


def mutate(data, rng):
    b = bytearray(data)
    k = rng.choice(["flip", "del", "dup", "splice", "bignum", "crlf", "trunc", "insert", "bigline"])
    if not b:
        return bytes(b), k
    i = rng.randrange(len(b))
    if k == "flip":
        b[i] ^= 1 << rng.randrange(8)
    elif k == "del":
        j = min(len(b), i + rng.choice([1, 1, 2, 5]))
        del b[i:j]
    elif k == "dup":
        j = min(len(b), i + rng.choice([1, 2, 8, 30]))
        b[i:i] = b[i:j]
    elif k == "splice":
        other, _ = valid_exchange(rng)
        j = rng.randrange(len(other) + 1)
        b = b[:i] + bytearray(other[j:])
    elif k == "bignum":
        # replace a run of digits by an oversize number
        import re as _re
        runs = [m for m in _re.finditer(rb"[0-9a-fA-F]+", bytes(b))]
        if runs:
            m = rng.choice(runs)
            big = rng.choice([b"18446744073709551616", b"99999999999999999999999", b"FFFFFFFFFFFFFFFFF", b"ffffffffffffffff", b"-1", b"+5",
                              b"0" * 30 + b"5", b"7fffffffffffffff"])
            b[m.start():m.end()] = big
    elif k == "crlf":
        b[i:i] = rng.choice([b"\r", b"\n", b"\r\n", b"\r\r\n", b"\n\n"])
    elif k == "trunc":
        del b[i:]
    elif k == "insert":
        b[i:i] = bytes(rng.randrange(256) for _ in range(rng.choice([1, 2, 4])))
    elif k == "bigline":
        b[i:i] = b"a" * rng.choice([20, 21, 99, 100, 101, 300])
    return bytes(b), k


def special_cases(rng):
    out = []
    many = render_response_head("1.1", 200, b"OK", [(b"X-%d" % i, b"v") for i in range(rng.choice([129, 130, 200]))])
    out.append(("recv_get", many, "129+fields"))
    out.append(("await100", many, "129+fields"))
    bigname = b"HTTP/1.1 200 OK\r\n" + b"a" * 70000 + b": v\r\n\r\n"
    out.append(("recv_get", bigname, "70000-name"))
    out.append(("await100", bigname, "70000-name"))
    out.append(("recv_get", b"HTTP/1.1 200 OK\r\nX: " + b"v" * 6000 + b"\r\n\r\n", "6000-value"))   # (the model's value scanner is quadratic)
    for cl in [b"18446744073709551615", b"18446744073709551616", b"99999999999999999999999999", b"184467440737095516150", b"00000000000000000000000000005"]:
        for st in (200, 302):
            out.append(("recv_get", b"HTTP/1.1 %d OK\r\nContent-Length: " % st + cl + b"\r\nLocation: /x\r\n\r\nhello", "oversize content-length"))
    out.append(("body_chunked", b"F" * 17 + b"\r\nabc", "hex-overflow"))
    out.append(("body_chunked", b"f" * 16 + b"\r\nabc", "hex-max"))
    out.append(("body_chunked", b"5" + b" " * 30 + b"\r\nhello\r\n0\r\n\r\n", "long-size-line"))
    out.append(("body_chunked", b"5\r\nhello\r\n0\r\n" + b"T: v\r\n" * 50 + b"\r\n", "50 trailers"))
    out.append(("body_chunked", b"5\r\nhello\r\n0\r\n" + b"t" * 500, "long trailer without crlf"))
    out.append(("body_chunked", b"\x80\r\nabc", "non-ascii size"))
    out.append(("body_chunked", b"5\r\nhelloXX3\r\nabc\r\n0\r\n\r\n", "missing crlf after data"))
    out.append(("body_chunked", b"\r\n\r\n\r\n", "empty size lines"))
    out.append(("body_length", b"", "empty body"))
    # well-formed redirects in every state class, so that the state-advancing calls after the server's bytes include as_new_flow
    # (seeded change C12-14: an Expect request answered by a redirect overflowed a fixed-capacity list in as_new_flow)
    for st in (301, 302, 303, 307, 308, 300):
        for loc in (b"http://b.test/next", b"/same-host"):
            head = b"HTTP/1.1 %d Moved\r\nLocation: " % st + loc + b"\r\nContent-Length: 0\r\n\r\n"
            for cls in ("await100", "recv_get", "recv_post"):
                out.append((cls, head, "redirect-%d" % st))
            out.append(("await100", b"HTTP/1.1 100 Continue\r\n\r\n" + head, "continue-then-redirect-%d" % st))
    # the fields the client interprets itself, with degenerate values: empty, white space only, empty list elements, commas only
    # (seeded change C12-15: a list-aware Connection test that slices an empty element out of range)
    for name in [b"Connection", b"Transfer-Encoding", b"Content-Length", b"Location", b"Expect"]:
        for val in [b"", b" ", b"\t ", b",", b",,", b"close,", b",close", b"a,,close", b"keep-alive, ,close", b"chunked,", b",chunked", b"gzip,,chunked", b" , "]:
            for st in (200, 302, 100, 403):
                head = b"HTTP/1.1 %d X\r\n" % st + name + b":" + val + b"\r\n" + (b"Location: /n\r\n" if st == 302 and name != b"Location" else b"") + b"\r\nrest"
                out.append(("recv_get", head, "degenerate-" + name.decode().lower()))
                if st in (100, 403):
                    out.append(("await100", head, "degenerate-" + name.decode().lower()))
                elif name != b"Expect":
                    out.append(("recv_post", head, "degenerate-" + name.decode().lower()))
    return out


def five_reasons(rng):
    """all five close conditions at once (F11 (c))."""
    refusal = b"HTTP/1.0 403 Forbidden\r\nConnection: close\r\n\r\nbody until close"
    ops = [op_new("POST", "1.0", "http", "a.test", "/p", [("expect", "100-continue"), ("connection", "close")]), "proceed", "write_head #4096", "proceed",
           "stream %s" % hx(refusal), "arrive #100000", "try100", "try100", "try100", "try100", "try100", "try100", "q_keep_await", "proceed",
           "try_response", "try_response", "q_can_proceed", "proceed", "read #100", "read #100", "q_can_proceed", "proceed", "q_must_close", "q_close_reason"]
    _stats["kinds"]["five-reasons"] = _stats["kinds"].get("five-reasons", 0) + 1
    return {"ops": ops, "meta": {"cls": "await100", "kind": "five-reasons", "stream": refusal.hex(), "sched": "all"}}


def reason_products(rng):
    """Every combination of the close conditions, on complete heads and on 3xx heads whose final CRLF is missing (returned early when a
    Location line is complete): no combination may panic (the close-reason list has a fixed capacity)."""
    out = []
    import itertools
    for rv, rclose, sclose, te, partial, st, expect in itertools.product(["1.0", "1.1"], [0, 1], [0, 1], [0, 1], [0, 1], [302, 403], [0, 1]):
        fields = [(b"Location", b"/n")] if st == 302 else []
        if sclose:
            fields.append((b"Connection", b"close"))
        if te:
            fields.append((b"Transfer-Encoding", b"gzip"))
        head = render_response_head("1.0" if rv == "1.0" else "1.1", st, b"S", fields)
        if partial:
            head = head[:-2]
        stream = head + (b"" if partial else b"body until close")
        hs = ([("expect", "100-continue")] if expect else []) + ([("connection", "close")] if rclose else []) + [("content-length", "2")]
        ops = [op_new("POST", rv, "http", "a.test", "/p", hs), "proceed", "write_head #4096", "proceed", "stream %s" % hx(stream), "arrive #100000"]
        if expect:
            ops += ["try100", "try100", "q_keep_await", "proceed"]
        ops += ["write_body %s #100" % hx(b"hi"), "proceed"]       # not permitted after a refusal: a no-op on both sides
        ops += ["try_response", "try_response", "q_can_proceed", "proceed", "read #100", "read #100", "q_can_proceed", "proceed", "q_must_close",
                "q_close_reason", "proceed", "q_must_close", "q_close_reason"]
        _stats["kinds"]["reason-product"] = _stats["kinds"].get("reason-product", 0) + 1
        out.append({"ops": ops, "meta": {"cls": "await100" if expect else "recv_post", "kind": "reason-product", "stream": stream.hex(), "sched": "all"}})
    return out


CLASSES = ["await100", "recv_get", "recv_post", "body_chunked", "body_length", "body_close"]


def generate(rng, tier, mult):
    out = [five_reasons(rng)] + reason_products(rng)
    maxlen = 4 if tier == "thorough" else 3
    # (i) exhaustive alphabet strings at the parse positions
    positions = {
        "await100": [b"", b"HTTP/1.1 100 Continue\r\n", b"HTTP/1.1 403 No\r\n", b"HTTP/1.1 1"],
        "recv_get": [b"", b"HTTP/1.1 200 OK\r\n", b"HTTP/1.1 302 Found\r\nLocation: /x\r\n", b"HTTP/1.1 200 OK\r\nContent-Length: ", b"HTTP/1."],
        "recv_post": [b"", b"HTTP/1.1 100 Continue\r\n\r\n"],
        "body_chunked": [b"", b"3\r\n", b"3\r\nabc", b"3\r\nabc\r\n0\r\n", b"1"],
        "body_length": [b""],
        "body_close": [b""],
    }
    for s in alphabet_strings(maxlen):
        for cls in CLASSES:
            for pi, pre in enumerate(positions[cls]):
                # quick tier: the full product only at the first position of each class, a third elsewhere
                if pi > 0 and tier == "quick" and (len(s) == maxlen and rng.random() < 0.8):
                    continue
                # thorough tier: all 160 000 strings of length 4 at the first position of the three parsing classes, a tenth elsewhere
                # (the full product is 2.7 million scripts and 28 GB of resident memory in the orchestrator)
                if tier == "thorough" and len(s) == maxlen and (pi > 0 or cls == "recv_post") and rng.random() < 0.9:
                    continue
                if cls in ("body_length", "body_close") and len(s) > 2:
                    continue   # framing ignores content; short strings suffice
                sched = "all" if rng.random() < 0.6 else rng.choice(["one", "rand"])
                out.append(build(cls, pre + s, rng, sched, "alphabet"))
    # (ii) grammar-aware mutations of valid exchanges
    n_mut = (12000 if tier == "thorough" else 2500) * mult
    for _ in range(n_mut):
        data, kind = valid_exchange(rng)
        depth = rng.choice([0, 1, 1, 1, 2, 3])
        mk = "valid"
        for _d in range(depth):
            data, mk = mutate(data, rng)
        if kind in ("chunked", "length", "close") and rng.random() < 0.5:
            # body bytes of that framing offered to the body reader: strip the head and use the class setup
            pass
        cls = rng.choice(["recv_get", "recv_get", "recv_post", "await100"])
        sched = rng.choice(["all", "one", "rand", "rand"])
        if len(data) > 400 and sched == "one":
            sched = "rand"
        out.append(build_generic(cls, data, rng, sched, "mut-" + mk))
    for _ in range((3000 if tier == "thorough" else 600) * mult):
        # mutated chunked codings offered to the chunked reader
        sizes = [rng.choice([1, 2, 3, 15, 16, 255]) for _ in range(rng.randrange(0, 4))]
        datas = [bytes((i * 11 + 5) & 255 for i in range(n)) for n in sizes]
        data = enc_chunked(datas, ext=rng.choice([b"", b";x=y", b" "]), trailers=rng.choice([(), (b"X-T: v",)]), upper=rng.random() < 0.3,
                           lead_zeros=rng.choice([0, 0, 2])) + b"HTTP/1.1 200 OK\r\n"
        mk = "valid"
        for _d in range(rng.choice([1, 1, 2, 3])):
            data, mk = mutate(data, rng)
        sched = rng.choice(["all", "one", "rand", "rand"])
        if len(data) > 300 and sched == "one":
            sched = "rand"
        out.append(build("body_chunked", data, rng, sched, "mutchunk-" + mk))
    for cls, data, kind in special_cases(rng):
        for sched in (["all", "rand"] if len(data) > 300 else ["all", "one", "rand"]):
            out.append(build(cls, data, rng, sched, kind))
    # (iii) undisciplined windows
    for _ in range((2000 if tier == "thorough" else 400) * mult):
        cls = rng.choice(["recv_get", "recv_post", "body_chunked", "body_chunked", "body_length", "body_close"])
        windows = []
        for _w in range(rng.randrange(1, 6)):
            if rng.random() < 0.5:
                windows.append(b"".join(rng.choice(ALPHABET) for _ in range(rng.randrange(0, 8))))
            else:
                data, _k = valid_exchange(rng)
                a = rng.randrange(len(data) + 1)
                windows.append(data[a:a + rng.randrange(0, 60)])
        out.append(build_raw(cls, windows, rng, "raw"))
    return out


def build_generic(cls, data, rng, sched, kind):
    """A whole (mutated) exchange offered to a flow waiting for a response: the script walks on through whatever
    state the flow reaches (non-permitted ops are no-ops on both sides)."""
    ops, _ = setup(cls, rng)
    total = len(data)
    ops.append("stream %s" % hx(data))
    if sched == "all":
        cuts = [total]
    elif sched == "one":
        cuts = list(range(1, total + 1))
    else:
        cuts = sorted(set([rng.randrange(1, total + 1) for _ in range(rng.randrange(1, 5))] + [total])) if total > 0 else [0]
    pos = 0
    for c in cuts:
        ops.append("arrive %s" % num(c - pos))
        pos = c
        # shotgun: whichever state the flow is in, its server-facing call runs; the others are not permitted
        if cls == "await100":
            ops.append("try100")
        ops += ["try_response", "q_can_proceed", "read %s" % num(rng.choice(CAPS))]
        if rng.random() < 0.5:
            ops.append("proceed")
    if cls == "await100":
        ops += ["proceed", "write_body %s #100" % hx(b"hi"), "write_body x #100", "proceed"]
    ops += ["try_response", "proceed", "read #100000", "read #100000"] + tail_ops(rng)
    _stats["classes"][cls + "/walk"] = _stats["classes"].get(cls + "/walk", 0) + 1
    _stats["kinds"][kind] = _stats["kinds"].get(kind, 0) + 1
    return {"ops": ops, "meta": {"cls": cls, "kind": kind, "stream": data.hex() if len(data) < 4000 else None, "sched": sched}}


def stats():
    return _stats


def is_subseq(small, big):
    it = iter(big)
    return all(any(x == y for y in it) for x in small)


def oracle(script, obs):
    ops = script["ops"]
    fails = []
    stream = b""
    arrived = 0
    consumed = 0
    for i, op in enumerate(ops):
        if i >= len(obs):
            if obs and obs[-1] == "panic":
                break
            return ["missing observation for op %d (%s)" % (i, op[:60])]
        o = obs[i]
        if o == "panic":
            return ["panic at op %d: %s" % (i, op[:80])]
        p = op.split(" ")
        if p[0] == "stream":
            stream = unhex(p[1])
            arrived = 0
            consumed = 0
        elif p[0] == "arrive":
            arrived = min(len(stream), arrived + unnum(p[1]))
        elif p[0] in ("try100", "try_response", "read", "raw_try_response", "raw_read", "raw_try100"):
            raw = p[0].startswith("raw_")
            win = unhex(p[1]) if raw else stream[consumed:arrived]
            if o == "np" or o.startswith("err"):
                continue
            q = o.split(" ")
            if p[0] in ("try100", "raw_try100"):
                n = unnum(q[1])
                out = b""
                cap = 0
            elif p[0] in ("try_response", "raw_try_response"):
                n = unnum(q[1])
                out = b""
                cap = 0
            else:
                n, produced, out = parse_counts(o)
                cap = unnum(p[2] if raw else p[1])
                if produced != len(out):
                    return ["op %d: reported %d produced bytes but %d were written" % (i, produced, len(out))]
                if produced > cap:
                    return ["op %d: produced %d > output space %d" % (i, produced, cap)]
                if not is_subseq(out, win[:n]):
                    return ["op %d: produced bytes are not a subsequence of the %d consumed bytes" % (i, n)]
            if n > len(win):
                return ["op %d (%s): consumed %d > offered %d" % (i, p[0], n, len(win))]
            if not raw:
                consumed += n
    return fails


def nontrivial(script, obs):
    return any(op.split(" ")[0] in ("try100", "try_response", "read", "raw_try_response", "raw_read") and o != "np"
               for op, o in zip(script["ops"], obs))


def collapse(line):
    return "err" if line.startswith("err ") or line == "err" else line
