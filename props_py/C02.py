"""C02 -- Request head on the wire is well-formed and faithful to the request."""
from .lib import *

RULE = ("requests over the 9 standard methods and HTTP/1.0 / 1.1, absolute URIs (with/without query, empty path, ports), 0..60 original "
        "and 0..60 caller-added headers incl. repeated names, obs-text values, explicit or missing Host, at most one of Content-Length "
        "/ Transfer-Encoding: chunked, with/without send-body-despite-method, at redirect depth 0..3, through the flow API and the "
        "single-call API; output-size sequences from {0, 1, |line|-1, |line|, |line|+1, |two lines|-1, |two lines|, huge, random} "
        "plus calls after completion. oracle = independent request-head parser over the concatenated output + per-call whole-line / "
        "overflow / greedy clauses. non-trivial = head completed over >= 1 call with >= 3 lines; distinct = distinct op lists")
TRUSTED_BASE = COMMON_TRUSTED_BASE
ASSUMPTIONS = ["original headers are given to both sides in the order http::HeaderMap iterates them (grouped by name); the harness checks that order against the real map",
               "requests have an absolute URI with a host and at least one effective header (always true: Host is added)"]
_stats = {"depth": {}, "api": {}, "nheaders": {}, "overflow_calls": 0}

NAMES = [b"accept", b"user-agent", b"x-a", b"x-b", b"cookie", b"authorization", b"accept-encoding", b"x-long-header-name", b"content-type", b"te", b"x-1"]


def value(rng):
    r = rng.random()
    if r < 0.1:
        return b""
    if r < 0.2:
        return b"v\xff\x80 obs"
    if r < 0.3:
        return b"a, b;q=0.5"
    return bytes(rng.choice(b"abcdefghijklmnopqrstuvwxyz0123456789/=;") for _ in range(rng.choice([1, 3, 8, 20, 60])))


def gen_headers(rng, n):
    return [(rng.choice(NAMES), value(rng)) for _ in range(n)]


def expected_lines(method, version, pq, added, host_value, framing, inherited):
    """Independent rendering of the head as a list of lines (the last line carries the blank line)."""
    lines = [method.encode() + b" " + (pq or b"/") + b" HTTP/" + version.encode() + b"\r\n"]
    hs = list(added)
    if host_value is not None:
        hs.append((b"host", host_value))
    if framing is not None:
        hs.append(framing)
    hs += inherited
    for k, v in hs:
        lines.append(k + b": " + v + b"\r\n")
    lines[-1] += b"\r\n"
    return lines, hs


def caps_for(lines, rng):
    """A schedule of output sizes that completes the head, with overflow attempts and extra calls."""
    caps = []
    i = 0
    n = len(lines)
    guard = 0
    while i < n and guard < 400:
        guard += 1
        L = len(lines[i])
        L2 = L + (len(lines[i + 1]) if i + 1 < n else 0)
        r = rng.random()
        if r < 0.12:
            c = rng.choice([0, 1, L - 1])
        elif r < 0.4:
            c = L
        elif r < 0.5:
            c = L + 1
        elif r < 0.6:
            c = L2 - 1
        elif r < 0.75:
            c = L2
        elif r < 0.85:
            c = rng.randrange(0, 200)
        elif r < 0.93:
            c = sum(len(x) for x in lines[i:i + rng.randrange(1, 8)])
        else:
            c = 100000
        c = max(c, 0)
        caps.append(c)
        # advance the expectation (greedy whole lines)
        room = c
        while i < n and len(lines[i]) <= room:
            room -= len(lines[i])
            i += 1
    if i < n:
        caps.append(100000)
    return caps


def gen_one(rng, small):
    api = rng.choice(["flow", "flow", "flow", "without", "with"])
    depth = rng.choice([0, 0, 0, 1, 2, 3]) if api == "flow" else 0
    _stats["api"][api] = _stats["api"].get(api, 0) + 1
    _stats["depth"][str(depth)] = _stats["depth"].get(str(depth), 0) + 1
    version = rng.choice(["1.1", "1.1", "1.0"])
    if api == "with":
        method = rng.choice(BODY_METHODS if version == "1.1" else ["POST"])
    elif api == "without":
        method = rng.choice(["GET", "HEAD", "DELETE", "OPTIONS", "TRACE", "CONNECT"] if version == "1.1" else ["GET", "HEAD"])
    else:
        method = rng.choice(METHODS if version == "1.1" else HTTP10_METHODS)
    takes_body = method in BODY_METHODS
    auth = rng.choice(["a.test", "a.test", "a.test:8080", "EXAMPLE.test", "a.test:80"])
    pq = rng.choice([b"/", b"/x/y", b"/x?q=1&r=2", b"", b"/%7Euser/a;b"])
    n_orig = rng.choice([0, 0, 1, 2, 3, 5]) if small or rng.random() < 0.8 else rng.randrange(10, 61)
    n_added = rng.choice([0, 0, 1, 2, 3]) if small or rng.random() < 0.8 else rng.randrange(10, 61)
    orig = gen_headers(rng, n_orig)
    if depth > 0:
        # inherited cookie / authorization / content-length are suppressed on redirect (C13): keep them out of the expectation
        pass
    explicit_host = rng.random() < 0.3
    if explicit_host:
        orig.insert(rng.randrange(0, len(orig) + 1), (b"host", b"override.test"))
    despite = False
    framing_orig = None
    if api == "flow" and not takes_body and rng.random() < 0.2:
        despite = True
    can_have_body = takes_body or despite
    if can_have_body and rng.random() < 0.5 and api != "without":
        if rng.random() < 0.5:
            framing_orig = (b"content-length", str(rng.choice([0, 5, 1000, 2 ** 64 - 1])).encode())
        else:
            framing_orig = (b"transfer-encoding", rng.choice([b"chunked", b"Chunked"]))
        orig.insert(rng.randrange(0, len(orig) + 1), framing_orig)
        if framing_orig[0] == b"transfer-encoding" and rng.random() < 0.3:
            # another Transfer-Encoding field ahead of the one that says chunked: the request is chunked all the same, nothing is added
            orig.insert(0, (b"transfer-encoding", b"gzip"))
    orig = group_headers(orig)
    ops = []
    args = request_args(method, version, "http", auth, pq, orig)
    if api == "flow":
        ops.append("new " + args)
    elif api == "without":
        ops.append("call_without " + args)
    else:
        ops.append("call_with " + args)
    cur_method = method
    cur_pq = pq
    cur_host = auth.split(":")[0].encode()
    # redirect hops (flow API): drive the flow to a 302 and follow it
    for hop in range(depth):
        ops += ["proceed", "write_head #100000", "proceed"]
        if cur_method in BODY_METHODS or (hop == 0 and despite):
            # finish the body
            if hop == 0 and despite:
                ops.insert(len(ops) - 3, "despite")
            if framing_orig is not None and framing_orig[0] == b"content-length" and hop == 0:
                n = int(framing_orig[1])
                if n > 5000:
                    return gen_one(rng, small)
                ops.append("write_body z%d #100000" % n)
                if n == 0:
                    pass
            else:
                ops.append("write_body x #100")
            ops.append("proceed")
        loc = rng.choice([b"/hop%d" % hop, b"/r/%d?x=y" % hop, b"http://b.test/other%d" % hop])
        # every followed status: 307/308 keep the method (only offered when the method may be kept), the others turn all but HEAD into GET
        status = rng.choice([301, 302, 303, 302] + ([307, 308, 307] if cur_method in ("GET", "HEAD", "OPTIONS", "TRACE", "CONNECT") else []))
        resp = render_response_head("1.1", status, b"Found", [(b"Location", loc), (b"Content-Length", b"0")])
        ops += ["raw_try_response %s" % hx(resp), "proceed", "as_new_flow never", "follow"]
        if loc.startswith(b"http://"):
            cur_host = b"b.test"
            cur_pq = loc[len(b"http://b.test"):]
        else:
            cur_pq = loc
            cur_host = cur_host.lower()  # the url crate lower-cases the host when it resolves the Location
        if status not in (307, 308) and cur_method not in ("GET", "HEAD"):
            cur_method = "GET"
        despite = False if hop == 0 else despite
    if depth > 0:
        # framing header / cookie / authorization of the original are not inherited as effective headers
        if framing_orig is not None and framing_orig[0] == b"transfer-encoding":
            return gen_one(rng, small)  # a redirected GET would inherit TE: chunked and be refused (C17's subject)
        inherited = [(k, v) for k, v in orig if k not in (b"cookie", b"authorization", b"content-length")]
        framing_eff = None
        takes_body_now = cur_method in BODY_METHODS
        despite_now = False
    else:
        inherited = orig
        framing_eff = framing_orig
        takes_body_now = takes_body
        despite_now = despite
    added = gen_headers(rng, n_added)
    if api == "flow":
        for k, v in added:
            ops.append("header %s %s" % (hx(k), hx(v)))
        if despite_now and depth == 0:
            ops.append("despite")
        ops.append("proceed")
    else:
        added = []
    # what analysis adds
    host_value = None if any(k == b"host" for k, v in added + inherited) else cur_host
    if any(k == b"host" for k, v in added) and any(k == b"host" for k, v in inherited):
        return gen_one(rng, small)
    framing_added = None
    has_body = takes_body_now or despite_now or api == "with"
    explicit_framing = [h for h in added + inherited if h[0] in (b"content-length", b"transfer-encoding")]
    if has_body and not explicit_framing:
        framing_added = (b"transfer-encoding", b"chunked")
    lines, eff = expected_lines(cur_method, version, cur_pq, [(k.lower(), v) for k, v in added], host_value, framing_added, inherited)
    caps = caps_for(lines, rng)
    wop = "write_head" if api != "with" else "write_body x"
    q = "q_can_proceed" if api == "flow" else "q_is_finished"
    for c in caps:
        ops.append("%s %s" % (wop, num(c)))
        if rng.random() < 0.3 and api != "with":
            ops.append(q)
    if api != "with":
        ops += [q, "%s #0" % wop, "%s #100000" % wop, q]
    if api == "flow":
        ops.append("proceed")
    bucket = "0-5" if len(eff) <= 5 else "6-20" if len(eff) <= 20 else ">20"
    _stats["nheaders"][bucket] = _stats["nheaders"].get(bucket, 0) + 1
    return {"ops": ops, "meta": {"api": api, "lines": [l.hex() for l in lines], "first_write": None, "depth": depth}}


def generate(rng, tier, mult):
    count = (1500 if tier == "quick" else 12000) * mult
    return [gen_one(rng, small=(i % 4 != 0)) for i in range(count)]


def stats():
    return _stats


def parse_request_head(data):
    """Independent HTTP/1 request-head parser: returns (method, target, version, [(name, value)])."""
    if not data.endswith(b"\r\n\r\n"):
        raise ValueError("head does not end with an empty line")
    lines = data[:-4].split(b"\r\n")
    rl = lines[0].split(b" ")
    if len(rl) != 3 or not rl[2].startswith(b"HTTP/"):
        raise ValueError("bad request line %r" % lines[0])
    hs = []
    for l in lines[1:]:
        if b": " not in l:
            raise ValueError("bad field line %r" % l)
        k, v = l.split(b": ", 1)
        hs.append((k, v))
    return rl[0], rl[1], rl[2][5:], hs


def oracle(script, obs):
    meta = script["meta"]
    lines = [bytes.fromhex(l) for l in meta["lines"]]
    full = b"".join(lines)
    fails = []
    api = meta["api"]
    ops = script["ops"]
    # find the last 'proceed'/'follow' before the head writes of interest: writes after the final follow
    start = 0
    for i, op in enumerate(ops):
        if op == "follow":
            start = i + 1
    idx = 0          # next expected line
    emitted = b""
    complete = False
    for i in range(start, min(len(ops), len(obs))):
        op, o = ops[i], obs[i]
        if o == "panic":
            return ["op %d: panic" % i]
        p = op.split(" ")
        is_write = (p[0] == "write_head") or (api == "with" and p[0] == "write_body")
        if is_write:
            cap = unnum(p[-1])
            if o.startswith("err"):
                if complete:
                    fails.append("op %d: error after the head was complete: %s" % (i, o))
                    return fails
                if not o.startswith("err OutputOverflow"):
                    fails.append("op %d: accepted request refused: %s" % (i, o))
                    return fails
                if idx < len(lines) and len(lines[idx]) <= cap:
                    fails.append("op %d: output overflow although the next line (%d bytes) fits %d" % (i, len(lines[idx]), cap))
                    return fails
                _stats["overflow_calls"] += 1
                continue
            q = o.split(" ")
            data = unhex(q[-1])
            if api == "with" and unnum(q[1]) != 0:
                fails.append("op %d: input consumed while writing the head" % i)
                return fails
            if len(data) > cap:
                fails.append("op %d: wrote %d bytes into %d" % (i, len(data), cap))
                return fails
            if complete:
                if data:
                    fails.append("op %d: bytes emitted after the head was complete: %r" % (i, data[:40]))
                    return fails
                continue
            # whole lines, contiguous, greedy
            j = idx
            acc = b""
            while j < len(lines) and len(acc) + len(lines[j]) <= len(data):
                acc += lines[j]
                j += 1
            if acc != data:
                fails.append("op %d: output is not a block of whole expected lines starting at line %d: %r" % (i, idx, data[:80]))
                return fails
            if not data and idx < len(lines):
                fails.append("op %d: nothing written and no overflow error (next line %d bytes, cap %d)" % (i, len(lines[idx]), cap))
                return fails
            if j < len(lines) and len(data) + len(lines[j]) <= cap:
                fails.append("op %d: not greedy: line %d (%d bytes) would still have fitted" % (i, j, len(lines[j])))
                return fails
            idx = j
            emitted += data
            complete = idx == len(lines)
        elif p[0] in ("q_can_proceed", "q_is_finished"):
            if (o == "true") != complete:
                fails.append("op %d: readiness %s but head complete=%s" % (i, o, complete))
                return fails
    if complete:
        if emitted != full:
            fails.append("concatenated output differs from the expected head")
        try:
            m, t, v, hs = parse_request_head(emitted)
            if sum(1 for k, _ in hs if k == b"host") != 1:
                fails.append("head does not carry exactly one host field")
        except ValueError as e:
            fails.append("emitted head does not parse: %s" % e)
    return fails


def nontrivial(script, obs):
    return len(script["meta"]["lines"]) >= 3 and any(o == "true" for op, o in zip(script["ops"], obs) if op.startswith("q_"))
