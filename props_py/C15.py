"""C15 -- Redirect method rewriting follows the documented table."""
import itertools
from .lib import *

RULE = ("exhaustive in both tiers: 9 standard methods x every status 300..399 x both auth policies x response with / without body "
        "(3600 flows; boundary statuses also with a close-delimited body, without a Location field, and for requests that declare Transfer-Encoding: chunked themselves), plus statuses 200, 299, 400 as negative cases for entering the redirect state, plus the same cells reached on two "
        "other paths (body method whose Expect: 100-continue is refused by the 3xx response itself; body-less method with "
        "send_body_despite_method) for the boundary statuses (thorough: every 3xx). Each flow is driven to the "
        "state after the response (through the body when there is one), asked for its status, followed with as_new_flow, and the "
        "new flow's method is read back. oracle = the table of the statement. non-trivial/distinct = every cell")
TRUSTED_BASE = COMMON_TRUSTED_BASE
ASSUMPTIONS = ["Location is a simple path-absolute reference (resolution is C14's subject)"]
EXHAUSTIVE = {"quick": True, "thorough": True}
_stats = {"followed": 0, "not_followed": 0}


def table(status, method):
    if status in (307, 308):
        return None if method in ("POST", "PUT", "PATCH", "DELETE") else method
    return "HEAD" if method == "HEAD" else "GET"


def build(method, status, policy, with_body, path="plain", loc=True):
    fields = [(b"Location", b"/n")] if loc else []
    if path == "refused":
        # body method with Expect: 100-continue, refused by the very 3xx response while awaiting 100 (the body is never sent)
        refusal = render_response_head("1.1", status, b"R", fields + [(b"Content-Length", b"3" if with_body else b"0")])
        ops = [op_new(method, "1.1", "http", "a.test", "/o", [("content-length", "2"), ("expect", "100-continue")]), "proceed", "write_head #4096", "proceed",
               "raw_try100 %s" % hx(refusal), "proceed"]
    elif path == "despite":
        # body-less method sending a body despite the method
        ops = [op_new(method, "1.1", "http", "a.test", "/o", []), "despite", "proceed", "write_head #4096", "proceed", "write_body %s #100" % hx(b"hi"),
               "write_body x #100", "proceed"]
    elif path == "te":
        # the request declares its own Transfer-Encoding: chunked (inherited by the redirected request together with the other headers)
        ops = [op_new(method, "1.1", "http", "a.test", "/o", [("transfer-encoding", "chunked"), ("authorization", "a"), ("cookie", "c=1")]), "proceed",
               "write_head #4096", "proceed", "write_body %s #100" % hx(b"hi"), "write_body x #100", "proceed"]
    elif method in BODY_METHODS:
        ops = [op_new(method, "1.1", "http", "a.test", "/o", [("content-length", "0")]), "proceed", "write_head #4096", "proceed", "write_body x #0", "proceed"]
    else:
        ops = [op_new(method, "1.1", "http", "a.test", "/o", []), "proceed", "write_head #4096", "proceed"]
    if with_body == "close":
        fields.append((b"Transfer-Encoding", b"gzip"))       # a close-delimited body: the redirect state is entered after it all the same
    elif with_body:
        fields.append((b"Content-Length", b"3"))
    else:
        fields.append((b"Content-Length", b"0"))
    head = render_response_head("1.1", status, b"R", fields)
    ops += ["raw_try_response %s" % hx(head), "proceed"]
    if with_body and method != "HEAD" and status not in (204, 304) and not (method == "CONNECT" and 200 <= status <= 299):
        ops += ["raw_read %s #100" % hx(b"abc"), "proceed"]
    ops += ["q_status", "as_new_flow %s" % policy, "follow", "q_method", "q_uri"]
    return {"ops": ops, "meta": {"cell": [method, status, policy, with_body], "path": path, "loc": loc}}


def generate(rng, tier, mult):
    out = []
    for m, s, p, b in itertools.product(METHODS, list(range(300, 400)) + [200, 299, 400], ["never", "same_host"], [False, True]):
        out.append(build(m, s, p, b))
    # the table is a function of the METHOD: the same cells reached with the body flag cleared (Expect refused by the redirect
    # itself) or set without a body method (send_body_despite_method)
    extra_status = list(range(300, 400)) if tier == "thorough" else [300, 301, 302, 303, 304, 305, 307, 308, 399]
    for m, s, p in itertools.product(METHODS, extra_status + [200], ["never", "same_host"]):
        out.append(build(m, s, p, "close"))
    # a 3xx that carries no Location field is a redirect all the same (with and without a body); following it is an error
    for m, s, p, b in itertools.product(METHODS, extra_status, ["never", "same_host"], [False, True, "close"]):
        out.append(build(m, s, p, b, loc=False))
    for m, s, p, b in itertools.product(BODY_METHODS, extra_status, ["never", "same_host"], [False, True]):
        out.append(build(m, s, p, b, "te"))
    for m, s, p, b in itertools.product(BODY_METHODS, extra_status, ["never", "same_host"], [False, True]):
        out.append(build(m, s, p, b, "refused"))
    for m, s, p, b in itertools.product(["GET", "HEAD", "DELETE", "OPTIONS", "TRACE"], extra_status, ["never", "same_host"], [False, True]):
        out.append(build(m, s, p, b, "despite"))
    return out


def stats():
    return _stats


def oracle(script, obs):
    m, s, p, b = script["meta"]["cell"]
    ops = script["ops"]
    if any(o == "panic" for o in obs):
        return ["panic in cell %s" % script["meta"]["cell"]]
    cell = "%s %d %s body=%s%s%s" % (m, s, p, b, "" if script["meta"].get("path", "plain") == "plain" else " (%s)" % script["meta"]["path"],
                                     "" if script["meta"].get("loc", True) else " (no Location field)")
    # HEAD responses never have a body: the flow goes straight on
    has_body = b and m != "HEAD" and s not in (204, 304) and not (m == "CONNECT" and 200 <= s <= 299)
    i = next(k for k, op in enumerate(ops) if op.startswith("raw_try_response"))
    state_idx = i + 1
    if has_body:
        if obs[i + 1] != "state RecvBody":
            return ["%s: expected the body state, got %s" % (cell, obs[i + 1])]
        state_idx = i + 3
    elif b:
        # ops include raw_read/proceed that are not permitted any more; the state is decided at i+1
        state_idx = i + 1
    is_redirect = 300 <= s <= 399 and s != 304
    want = "state Redirect" if is_redirect else "state Cleanup"
    if obs[state_idx] != want:
        return ["%s: expected %s, got %s" % (cell, want, obs[state_idx])]
    if not is_redirect:
        return []
    k = next(j for j, op in enumerate(ops) if op == "q_status")
    if obs[k] != "#%d" % s:
        return ["%s: redirect state reports status %s" % (cell, obs[k])]
    if not script["meta"].get("loc", True):
        if not obs[k + 1].startswith("err"):
            return ["%s: a redirect without a Location field cannot be followed, as_new_flow gave %s" % (cell, obs[k + 1])]
        return []
    exp = table(s, m)
    if exp is None:
        _stats["not_followed"] += 1
        if obs[k + 1] != "none":
            return ["%s: redirect must not be followed, as_new_flow gave %s" % (cell, obs[k + 1])]
        return []
    _stats["followed"] += 1
    if obs[k + 1] != "some":
        return ["%s: redirect not followed: %s" % (cell, obs[k + 1])]
    if obs[k + 3] != exp:
        return ["%s: new method %s, expected %s" % (cell, obs[k + 3], exp)]
    return []


def nontrivial(script, obs):
    return True
