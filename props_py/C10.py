"""C10 -- Connection-reuse verdict is exactly the disjunction of the close conditions."""
import itertools
from .lib import *

RULE = ("exhaustive product (both tiers): request version {1.0,1.1} x request Connection {absent, close, keep-alive, [keep-alive, close]} x "
        "handshake {GET, POST, POST+Expect continued, POST+Expect given up, POST+Expect refused bare, POST+Expect refused with fields} x "
        "response version {1.0,1.1} x status {200, 302, 404} x framing {length 0, length 3, chunked, close-delimited} x response "
        "Connection {absent, close, keep-alive, [keep-alive, close]}; every flow is driven to Cleanup and, for 302, also inspected in "
        "Redirect. oracle = disjunction of the five conditions computed from the script, reason must name a true condition. "
        "non-trivial/distinct = every combination")
TRUSTED_BASE = COMMON_TRUSTED_BASE
ASSUMPTIONS = ["Connection option values are compared exactly ('close'), as the quantifier lists them; case variants and comma lists are outside the property",
               "Connection: close added through Flow<Prepare>::header after construction is not the original request's header (outside the property)"]
EXHAUSTIVE = {"quick": True, "thorough": True}
_stats = {"must_close": 0, "reusable": 0}

REQ_CONN = ["absent", "close", "keep-alive", "both"]
HANDSHAKE = ["get", "post", "expect-continue", "expect-giveup", "expect-refused", "expect-refused-fields"]
FRAMING = ["len0", "len3", "chunked", "close"]
REASONS = {
    b"version is http1.0": "h10",
    b"client sent Connection: close": "ccl",
    b"server sent Connection: close": "scl",
    b"got non-100 response before sending body": "n100",
    b"response body is close delimited": "cdl",
}


def conn_fields(kind, name=b"Connection"):
    if kind == "absent":
        return []
    if kind == "both":
        return [(name, b"keep-alive"), (name, b"close")]
    return [(name, kind.encode())]


def build(rv, rconn, hs, sv, status, framing, sconn):
    method = "GET" if hs == "get" else "POST"
    headers = conn_fields(rconn, b"connection")
    if hs.startswith("expect"):
        headers.append((b"expect", b"100-continue"))
    if method == "POST":
        headers.append((b"content-length", b"2"))
    ops = [op_new(method, rv, "http", "a.test", "/", headers), "proceed", "write_head #4096", "proceed"]
    fields = conn_fields(sconn)
    if status == 302:
        fields.append((b"Location", b"/n"))
    body = b""
    if framing == "len0":
        fields.append((b"Content-Length", b"0"))
    elif framing == "len3":
        fields.append((b"Content-Length", b"3"))
        body = b"abc"
    elif framing == "chunked":
        fields.append((b"Transfer-Encoding", b"chunked"))
        body = b"3\r\nabc\r\n0\r\n\r\n"
    else:
        body = b"abc"
    refused = hs in ("expect-refused", "expect-refused-fields")
    if refused:
        st = 403 if status != 302 else 302
    else:
        st = status
    head = render_response_head(sv, st, b"S", fields)
    if hs == "expect-continue":
        ops += ["raw_try100 %s" % hx(b"HTTP/1.1 100 Continue\r\n\r\n"), "proceed"]
    elif hs == "expect-giveup":
        ops += ["raw_try100 x", "proceed"]
    elif hs == "expect-refused":
        # a bare head without fields: only possible when the response has no fields at all; use the status line + CRLF of the real head
        ops += ["raw_try100 %s" % hx(head), "q_keep_await", "proceed"]
    elif hs == "expect-refused-fields":
        ops += ["raw_try100 %s" % hx(head), "q_keep_await", "proceed"]
    if method == "POST" and not refused:
        ops += ["write_body %s #100" % hx(b"hi"), "proceed"]
    ops += ["raw_try_response %s" % hx(head), "proceed"]
    ops += ["raw_read %s #100" % hx(body), "proceed"] if body else []
    ops += ["q_must_close", "q_close_reason", "proceed", "q_must_close", "q_close_reason"]
    return {"ops": ops, "meta": {"combo": [rv, rconn, hs, sv, st, framing, sconn]}}


def generate(rng, tier, mult):
    out = []
    for combo in itertools.product(["1.0", "1.1"], REQ_CONN, HANDSHAKE, ["1.0", "1.1"], [200, 302, 404], FRAMING, REQ_CONN):
        out.append(build(*combo))
    return out


def stats():
    return _stats


def oracle(script, obs):
    rv, rconn, hs, sv, st, framing, sconn = script["meta"]["combo"]
    if any(o == "panic" for o in obs):
        return ["panic in %s" % script["meta"]["combo"]]
    ops = script["ops"]
    facts = set()
    if rv == "1.0":
        facts.add("h10")
    if rconn in ("close", "both"):
        facts.add("ccl")
    if sconn in ("close", "both"):
        facts.add("scl")
    if hs in ("expect-refused", "expect-refused-fields"):
        facts.add("n100")
    method = "GET" if hs == "get" else "POST"
    # close-delimited body: no framing header, and the rules give a body (not 302-without-framing)
    if framing == "close" and st != 302:
        facts.add("cdl")
    # also: chunked on an HTTP/1.0 response is not chunked: falls back to close-delimited (no Content-Length)
    if framing == "chunked" and sv == "1.0" and st != 302:
        facts.add("cdl")
    want = len(facts) > 0
    _stats["must_close" if want else "reusable"] += 1
    combo = "%s" % script["meta"]["combo"]
    seen_states = [o for o in obs if o.startswith("state ")]
    if "state Cleanup" not in seen_states:
        return ["%s: flow did not reach Cleanup: %s" % (combo, seen_states[-2:])]
    if st == 302 and "state Redirect" not in seen_states:
        return ["%s: 302 did not pass through Redirect" % combo]
    fails = []
    for i, (op, o) in enumerate(zip(ops, obs)):
        if op == "q_must_close" and o in ("true", "false"):
            if (o == "true") != want:
                fails.append("%s: must_close=%s but conditions that hold are %s" % (combo, o, sorted(facts)))
                return fails
        if op == "q_close_reason" and (o.startswith("some") or o == "none"):
            if (o != "none") != want:
                fails.append("%s: reason %s but must_close should be %s" % (combo, o[:20], want))
                return fails
            if o != "none":
                txt = unhex(o.split(" ")[1])
                if REASONS.get(txt) not in facts:
                    fails.append("%s: reason %r names a condition that does not hold (%s)" % (combo, txt, sorted(facts)))
                    return fails
    return fails


def nontrivial(script, obs):
    return True
