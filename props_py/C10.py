"""C10 -- Connection-reuse verdict is exactly the disjunction of the close conditions."""
import itertools
from .lib import *

RULE = ("exhaustive product (both tiers): request version {1.0,1.1} x request Connection {absent, close, keep-alive, [keep-alive, close], [close, keep-alive]} x "
        "(plus statuses 205 and 300 on a reduced product) x handshake {GET, POST, POST+Expect continued, POST+Expect given up, POST+Expect refused bare, POST+Expect refused with fields, "
        "POST+Expect answered by an interim 102, GET answered by an un-awaited 100 / a 103 first} x response version {1.0,1.1} x status {200, 302, 404; 205 and 300 on a reduced product} x framing {length 0, length 3, "
        "chunked, close-delimited, close-delimited with Transfer-Encoding: gzip}; plus 3xx heads returned before they are complete "
        "(message boundary lost) x response "
        "Connection {absent, close, keep-alive, [keep-alive, close], [close, keep-alive]}; close-delimited bodies also abandoned without a read; every flow is driven to Cleanup and, for 302, also inspected in "
        "Redirect. oracle = disjunction of the five conditions computed from the script, reason must name a true condition. "
        "non-trivial/distinct = every combination")
TRUSTED_BASE = COMMON_TRUSTED_BASE
ASSUMPTIONS = ["Connection option values are compared exactly ('close'), as the quantifier lists them; case variants and comma lists are outside the property",
               "Connection: close added through Flow<Prepare>::header after construction is not the original request's header (outside the property)"]
EXHAUSTIVE = {"quick": True, "thorough": True}
_stats = {"must_close": 0, "reusable": 0}

REQ_CONN = ["absent", "close", "keep-alive", "both", "both-rev"]
HANDSHAKE = ["get", "post", "expect-continue", "expect-giveup", "expect-refused", "expect-refused-fields", "expect-refused-1xx", "get-interim100", "get-interim103"]
FRAMING = ["len0", "len3", "chunked", "close", "close-te"]
REASONS = {
    b"version is http1.0": "h10",
    b"client sent Connection: close": "ccl",
    b"server sent Connection: close": "scl",
    b"got non-100 response before sending body": "n100",
    b"response body is close delimited": "cdl",
}


def conn_fields(kind, name=b"Connection"):
    if kind == "absent":
        return []
    if kind == "both":
        return [(name, b"keep-alive"), (name, b"close")]
    if kind == "both-rev":
        return [(name, b"close"), (name, b"keep-alive")]
    return [(name, kind.encode())]


def build(rv, rconn, hs, sv, status, framing, sconn, skip_read=False):
    method = "GET" if hs.startswith("get") else "POST"
    headers = conn_fields(rconn, b"connection")
    if hs.startswith("expect"):
        headers.append((b"expect", b"100-continue"))
    if method == "POST":
        headers.append((b"content-length", b"2"))
    ops = [op_new(method, rv, "http", "a.test", "/", headers), "proceed", "write_head #4096", "proceed"]
    fields = conn_fields(sconn)
    if status == 302:
        fields.append((b"Location", b"/n"))
    body = b""
    if framing == "len0":
        fields.append((b"Content-Length", b"0"))
    elif framing == "len3":
        fields.append((b"Content-Length", b"3"))
        body = b"abc"
    elif framing == "chunked":
        fields.append((b"Transfer-Encoding", b"chunked"))
        body = b"3\r\nabc\r\n0\r\n\r\n"
    elif framing == "close-te":
        # close-delimited although a Transfer-Encoding field is present (chunked is not the final coding)
        fields.append((b"Transfer-Encoding", b"gzip"))
        body = b"abc"
    else:
        body = b"abc"
    refused = hs in ("expect-refused", "expect-refused-fields", "expect-refused-1xx")
    if hs == "expect-refused-1xx":
        st = 102      # an interim response other than 100 while awaiting 100 is a refusal too
    elif refused:
        st = 403 if status != 302 else 302
    else:
        st = status
    head = render_response_head(sv, st, b"S", fields)
    if hs == "expect-continue":
        ops += ["raw_try100 %s" % hx(b"HTTP/1.1 100 Continue\r\n\r\n"), "proceed"]
    elif hs == "expect-giveup":
        ops += ["raw_try100 x", "proceed"]
    elif hs == "expect-refused":
        # a bare head without fields: only possible when the response has no fields at all; use the status line + CRLF of the real head
        ops += ["raw_try100 %s" % hx(head), "q_keep_await", "proceed"]
    elif hs in ("expect-refused-fields", "expect-refused-1xx"):
        ops += ["raw_try100 %s" % hx(head), "q_keep_await", "proceed"]
    if method == "POST" and not refused:
        ops += ["write_body %s #100" % hx(b"hi"), "proceed"]
    if hs == "get-interim100":
        ops += ["raw_try_response %s" % hx(INTERIM_HEADS[3])]      # a 100 Continue nobody awaits is handed to the caller; the final response follows
    elif hs == "get-interim103":
        ops += ["raw_try_response %s" % hx(INTERIM_HEADS[2])]
    ops += ["raw_try_response %s" % hx(head), "proceed"]
    if skip_read:
        # a close-delimited body may be abandoned: RecvBody can be left without a single read
        ops += ["proceed"]
    else:
        ops += ["raw_read %s #100" % hx(body), "proceed"] if body else []
    ops += ["q_must_close", "q_close_reason", "proceed", "q_must_close", "q_close_reason"]
    return {"ops": ops, "meta": {"combo": [rv, rconn, hs, sv, st, framing, sconn], "skip_read": skip_read}}


def generate(rng, tier, mult):
    out = []
    for combo in itertools.product(["1.0", "1.1"], REQ_CONN, HANDSHAKE, ["1.0", "1.1"], [200, 302, 404], FRAMING, REQ_CONN):
        out.append(build(*combo))
        rv, rconn, hs, sv, status, framing, sconn = combo
        if framing in ("close", "close-te") or (framing == "chunked" and sv == "1.0"):
            out.append(build(*combo, skip_read=True))
    # further statuses on a reduced product: 205 (a body unless framed otherwise), 300 (a redirect, here without a Location field)
    for combo in itertools.product(["1.0", "1.1"], ["absent", "close"], ["get", "post"], ["1.0", "1.1"], [205, 300], FRAMING, ["absent", "close", "keep-alive"]):
        out.append(build(*combo))
    # message boundary lost: a 3xx head with Location that is not complete yet is returned as a response (known finding F10 of C05);
    # whatever Connection field it carries, the connection must not be offered for reuse
    for sconn in REQ_CONN:
        for order in (0, 1):
            for cut in (2, 9):
                fields = [(b"Location", b"/n")]
                fields = (conn_fields(sconn) + fields) if order == 0 else (fields + conn_fields(sconn))
                head = render_response_head("1.1", 302, b"S", fields + [(b"X-Last", b"abcdefgh")])
                ops = [op_new("GET", "1.1", "http", "a.test", "/", []), "proceed", "write_head #4096", "proceed",
                       "raw_try_response %s" % hx(head[:-cut]), "proceed", "q_must_close", "q_close_reason", "proceed", "q_must_close", "q_close_reason"]
                out.append({"ops": ops, "meta": {"combo": ["partial-redirect", sconn, order, cut]}})
    # headers OTHER than Connection whose value is "close", on the request and on the response: not a close condition (seeded change
    # C10-21 compared the value of every field and ignored the name)
    for rv, sv in (("1.1", "1.1"),):
        for where in ("request", "response", "both"):
            rq = [(b"proxy-connection", b"close"), (b"x-circuit", b"close")] if where in ("request", "both") else []
            rs = [(b"Proxy-Connection", b"close"), (b"X-Circuit", b"close")] if where in ("response", "both") else []
            head = render_response_head(sv, 200, b"OK", rs + [(b"Content-Length", b"0")])
            ops = [op_new("GET", rv, "http", "a.test", "/", rq), "proceed", "write_head #4096", "proceed",
                   "raw_try_response %s" % hx(head), "proceed", "q_must_close", "q_close_reason", "proceed", "q_must_close", "q_close_reason"]
            out.append({"ops": ops, "meta": {"combo": [rv, "absent", "get", sv, 200, "len0", "absent"]}})
    # the exchange that follows a redirect: the redirected request inherits the version and the Connection fields of the original, so the
    # client-side conditions hold for it as well (the next flow is built like any other: seeded change C10-18 built it by hand)
    for rv, rconn, sconn, policy in itertools.product(["1.0", "1.1"], REQ_CONN, ["absent", "close", "keep-alive"], ["never", "same_host"]):
        first = render_response_head("1.1", 302, b"Found", [(b"Location", b"/next"), (b"Content-Length", b"0")])
        second = render_response_head("1.1", 200, b"OK", conn_fields(sconn) + [(b"Content-Length", b"0")])
        ops = [op_new("GET", rv, "http", "a.test", "/", conn_fields(rconn, b"connection")), "proceed", "write_head #4096", "proceed",
               "raw_try_response %s" % hx(first), "proceed", "as_new_flow %s" % policy, "follow", "proceed", "write_head #4096", "proceed",
               "raw_try_response %s" % hx(second), "proceed", "q_must_close", "q_close_reason"]
        out.append({"ops": ops, "meta": {"combo": ["second-hop", rv, rconn, sconn, policy]}})
    return out


def stats():
    return _stats


def oracle(script, obs):
    if any(o == "panic" for o in obs):
        return ["panic in %s" % script["meta"]["combo"]]
    if script["meta"]["combo"][0] == "partial-redirect":
        i = next(k for k, op in enumerate(script["ops"]) if op.startswith("raw_try_response"))
        if not obs[i].startswith("some"):
            return []      # the incomplete head was not returned: nothing to say here
        for op, o in zip(script["ops"], obs):
            if op == "q_must_close" and o == "false":
                return ["%s: a response was returned from an incomplete head (message boundary lost) but the connection is offered for reuse" % script["meta"]["combo"]]
        return []
    if script["meta"]["combo"][0] == "second-hop":
        _k, rv, rconn, sconn, _policy = script["meta"]["combo"]
        facts = set()
        if rv == "1.0":
            facts.add("h10")
        if rconn in ("close", "both", "both-rev"):
            facts.add("ccl")
        if sconn == "close":
            facts.add("scl")
        want = len(facts) > 0
        if obs[-2] not in ("true", "false"):
            return ["%s: the exchange after the redirect did not reach Cleanup: %s" % (script["meta"]["combo"], obs[-4:])]
        if (obs[-2] == "true") != want:
            return ["%s: after the redirect must_close=%s but the conditions that hold for the redirected request are %s" % (script["meta"]["combo"], obs[-2], sorted(facts))]
        if obs[-1] != "none" and REASONS.get(unhex(obs[-1].split(" ")[1])) not in facts:
            return ["%s: reason names a condition that does not hold" % script["meta"]["combo"]]
        return []
    rv, rconn, hs, sv, st, framing, sconn = script["meta"]["combo"]
    ops = script["ops"]
    facts = set()
    if rv == "1.0":
        facts.add("h10")
    if rconn in ("close", "both", "both-rev"):
        facts.add("ccl")
    if sconn in ("close", "both", "both-rev"):
        facts.add("scl")
    if hs in ("expect-refused", "expect-refused-fields", "expect-refused-1xx"):
        facts.add("n100")
    has_body = not (100 <= st <= 199 or st in (204, 304))
    is_redir = 300 <= st <= 399 and st != 304
    method = "GET" if hs.startswith("get") else "POST"
    # close-delimited body: no framing header, and the rules give a body (not 302-without-framing)
    if framing == "close" and not is_redir and has_body:
        facts.add("cdl")
    if framing == "close-te" and has_body:
        facts.add("cdl")       # a Transfer-Encoding field is a framing header: also a 3xx is then close-delimited
    # also: chunked on an HTTP/1.0 response is not chunked: falls back to close-delimited (no Content-Length)
    if framing == "chunked" and sv == "1.0" and has_body:
        facts.add("cdl")
    want = len(facts) > 0
    _stats["must_close" if want else "reusable"] += 1
    combo = "%s%s" % (script["meta"]["combo"], " (RecvBody left without reading)" if script["meta"].get("skip_read") else "")
    seen_states = [o for o in obs if o.startswith("state ")]
    if "state Cleanup" not in seen_states:
        return ["%s: flow did not reach Cleanup: %s" % (combo, seen_states[-2:])]
    if is_redir and "state Redirect" not in seen_states:
        return ["%s: %d did not pass through Redirect" % (combo, st)]
    fails = []
    for i, (op, o) in enumerate(zip(ops, obs)):
        if op == "q_must_close" and o in ("true", "false"):
            if (o == "true") != want:
                fails.append("%s: must_close=%s but conditions that hold are %s" % (combo, o, sorted(facts)))
                return fails
        if op == "q_close_reason" and (o.startswith("some") or o == "none"):
            if (o != "none") != want:
                fails.append("%s: reason %s but must_close should be %s" % (combo, o[:20], want))
                return fails
            if o != "none":
                txt = unhex(o.split(" ")[1])
                if REASONS.get(txt) not in facts:
                    fails.append("%s: reason %r names a condition that does not hold (%s)" % (combo, txt, sorted(facts)))
                    return fails
    return fails


def nontrivial(script, obs):
    return True
