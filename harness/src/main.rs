fn main() {}
