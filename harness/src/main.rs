//! implrun: runs scripts (see coq/theories/Script.v for the operation language) against the real
//! ureq-proto crate and prints one observation line per operation, in the same textual form as the
//! extracted Coq model does (modelrun).
//!
//! Input:   S <id> / one operation per line / E
//! Tokens:  #<decimal>  number;  x<hex>  byte string;  anything else  word
//! Output:  S <id> / one observation line per operation / E
//!
//! Every call into the crate is wrapped in catch_unwind; a panic prints `panic` and ends the script
//! (the remaining operations are not executed).

use std::io::{self, BufRead, Write};
use std::panic::{catch_unwind, AssertUnwindSafe};

use ureq_proto::client::call::state::{
    RecvBody as CallRecvBodyState, RecvResponse as CallRecvResponseState, WithBody, WithoutBody,
};
use ureq_proto::client::call::Call;
use ureq_proto::client::flow::state::*;
use ureq_proto::client::flow::*;
use ureq_proto::http::{HeaderName, HeaderValue, Method, Request, Response, Version};
use ureq_proto::parser::*;
use ureq_proto::{BodyMode, Error};

enum Obj {
    None,
    Prepare(Flow<(), Prepare>),
    SendRequest(Flow<(), SendRequest>),
    Await100(Flow<(), Await100>),
    SendBody(Flow<(), SendBody>),
    RecvResponse(Flow<(), RecvResponse>),
    RecvBody(Flow<(), RecvBody>),
    Redirect(Flow<(), Redirect>),
    Cleanup(Flow<(), Cleanup>),
    CallWithout(Call<WithoutBody, ()>),
    CallWith(Call<WithBody, ()>),
    CallRecvResponse(Call<CallRecvResponseState, ()>),
    CallRecvBody(Call<CallRecvBodyState, ()>),
}

struct St {
    obj: Obj,
    next: Option<Flow<(), Prepare>>,
    stream: Vec<u8>,
    arrived: usize,
    consumed: usize,
    body: Vec<u8>,
    sent: usize,
}

#[derive(Clone, Debug)]
enum Tok {
    W(String),
    N(u128),
    H(Vec<u8>),
}

fn hexv(c: u8) -> Option<u8> {
    match c {
        b'0'..=b'9' => Some(c - b'0'),
        b'a'..=b'f' => Some(c - b'a' + 10),
        b'A'..=b'F' => Some(c - b'A' + 10),
        _ => None,
    }
}

fn parse_tok(s: &str) -> Tok {
    let b = s.as_bytes();
    if b[0] == b'#' {
        if let Ok(n) = s[1..].parse::<u128>() {
            return Tok::N(n);
        }
    }
    if b[0] == b'z' && b.len() > 1 {
        // z<count>: <count> pattern bytes (i*7+3) mod 256 -- keeps scripts with large inputs small
        if let Ok(n) = s[1..].parse::<usize>() {
            return Tok::H((0..n).map(|i| ((i * 7 + 3) & 255) as u8).collect());
        }
    }
    if b[0] == b'x' && b.len() % 2 == 1 && b[1..].iter().all(|c| hexv(*c).is_some()) {
        let mut v = Vec::with_capacity(b.len() / 2);
        let mut i = 1;
        while i < b.len() {
            v.push(hexv(b[i]).unwrap() * 16 + hexv(b[i + 1]).unwrap());
            i += 2;
        }
        return Tok::H(v);
    }
    Tok::W(s.to_string())
}

fn hex(b: &[u8]) -> String {
    const D: &[u8] = b"0123456789abcdef";
    let mut s = String::with_capacity(b.len() * 2 + 1);
    s.push('x');
    for x in b {
        s.push(D[(x >> 4) as usize] as char);
        s.push(D[(x & 15) as usize] as char);
    }
    s
}

fn err_name(e: &Error) -> String {
    let s = format!("{:?}", e);
    let name = s.split('(').next().unwrap().to_string();
    format!("err {}", name)
}

fn clamp(n: u128) -> usize {
    // capacities / amounts beyond usize are clamped (scripts never depend on the difference)
    if n > usize::MAX as u128 {
        usize::MAX
    } else {
        n as usize
    }
}

const MAX_BUF: usize = 1 << 22;

fn outbuf(cap: usize) -> Vec<u8> {
    vec![0u8; cap.min(MAX_BUF)]
}

fn build_request(args: &[Tok]) -> Result<Request<()>, String> {
    if args.len() < 5 || (args.len() - 5) % 2 != 0 {
        return Err("badop".into());
    }
    let (m, v, scheme, auth, pq) = match (&args[0], &args[1], &args[2], &args[3], &args[4]) {
        (Tok::W(m), Tok::W(v), Tok::H(s), Tok::H(a), Tok::H(p)) => (m, v, s, a, p),
        _ => return Err("badop".into()),
    };
    let method = Method::from_bytes(m.as_bytes()).map_err(|_| "badreq method".to_string())?;
    let version = match v.as_str() {
        "0.9" => Version::HTTP_09,
        "1.0" => Version::HTTP_10,
        "1.1" => Version::HTTP_11,
        "2" => Version::HTTP_2,
        "3" => Version::HTTP_3,
        _ => return Err("badop".into()),
    };
    let mut uri = Vec::new();
    // empty scheme and authority: origin-form request URI (path and query only)
    let origin_form = scheme.is_empty() && auth.is_empty();
    if !origin_form {
        uri.extend_from_slice(scheme);
        uri.extend_from_slice(b"://");
        uri.extend_from_slice(auth);
    }
    uri.extend_from_slice(pq);
    let mut b = Request::builder().method(method).version(version).uri(&uri[..]);
    let mut given: Vec<(Vec<u8>, Vec<u8>)> = vec![];
    let mut i = 5;
    while i < args.len() {
        match (&args[i], &args[i + 1]) {
            (Tok::H(k), Tok::H(v)) => {
                let name = HeaderName::from_bytes(k).map_err(|_| "badreq name".to_string())?;
                let value = HeaderValue::from_bytes(v).map_err(|_| "badreq value".to_string())?;
                b = b.header(name, value);
                given.push((k.clone(), v.clone()));
            }
            _ => return Err("badop".into()),
        }
        i += 2;
    }
    let req = b.body(()).map_err(|e| format!("badreq {}", e.to_string().replace(' ', "_")))?;
    // The model takes the URI components and the header order as given: check that the http crate
    // sees the same thing.
    let u = req.uri();
    let s_ok = u.scheme_str().map(|s| s.as_bytes().eq_ignore_ascii_case(scheme)).unwrap_or(origin_form);
    let a_ok = u.authority().map(|a| a.as_str().as_bytes() == &auth[..]).unwrap_or(origin_form);
    let p_real = u.path_and_query().map(|p| p.as_str()).unwrap_or("");
    let p_ok = p_real.as_bytes() == &pq[..] || (pq.is_empty() && p_real == "/");
    if !(s_ok && a_ok && p_ok) {
        return Err("badreq uri-components".into());
    }
    let real: Vec<(Vec<u8>, Vec<u8>)> = req
        .headers()
        .iter()
        .map(|(k, v)| (k.as_str().as_bytes().to_vec(), v.as_bytes().to_vec()))
        .collect();
    if real != given {
        return Err("badreq header-order".into());
    }
    Ok(req)
}

fn obs_headers<'a, I: Iterator<Item = (&'a HeaderName, &'a HeaderValue)>>(it: I) -> String {
    let v: Vec<_> = it.collect();
    let mut s = format!("#{}", v.len());
    for (k, val) in v {
        s.push(' ');
        s.push_str(&hex(k.as_str().as_bytes()));
        s.push(' ');
        s.push_str(&hex(val.as_bytes()));
    }
    s
}

fn ver_num(v: Version) -> u8 {
    if v == Version::HTTP_10 {
        0
    } else if v == Version::HTTP_11 {
        1
    } else {
        9
    }
}

fn obs_response(r: &Response<()>) -> String {
    format!("#{} #{} {}", ver_num(r.version()), r.status().as_u16(), obs_headers(r.headers().iter()))
}

fn version_name(v: Version) -> &'static str {
    if v == Version::HTTP_09 {
        "HTTP/0.9"
    } else if v == Version::HTTP_10 {
        "HTTP/1.0"
    } else if v == Version::HTTP_11 {
        "HTTP/1.1"
    } else if v == Version::HTTP_2 {
        "HTTP/2.0"
    } else {
        "HTTP/3.0"
    }
}

fn b(v: bool) -> String {
    (if v { "true" } else { "false" }).to_string()
}

fn window(st: &St) -> Vec<u8> {
    let from = st.consumed.min(st.stream.len());
    let to = st.arrived.min(st.stream.len()).max(from);
    st.stream[from..to].to_vec()
}

fn checksum(b: &[u8]) -> u64 {
    // Fletcher style, additions only (cheap in the extracted model)
    let mut s1: u64 = 7;
    let mut s2: u64 = 0;
    for x in b {
        s1 += *x as u64;
        s2 += s1;
    }
    s2
}

fn do_write_body(st: &mut St, input: &[u8], cap: usize, track: bool, sum: bool) -> String {
    let mut out = outbuf(cap);
    let r = match &mut st.obj {
        Obj::SendBody(f) => f.write(input, &mut out),
        Obj::CallWith(c) => c.write(input, &mut out),
        _ => return "np".into(),
    };
    match r {
        Ok((i, o)) => {
            if track {
                st.sent += i;
            }
            if sum {
                format!("ok #{} #{} #{}", i, o, checksum(&out[..o]))
            } else {
                format!("ok #{} #{} {}", i, o, hex(&out[..o]))
            }
        }
        Err(e) => err_name(&e),
    }
}

fn do_try100(st: &mut St, win: &[u8], track: bool) -> String {
    match &mut st.obj {
        Obj::Await100(f) => match f.try_read_100(win) {
            Ok(n) => {
                if track {
                    st.consumed += n;
                }
                format!("ok #{}", n)
            }
            Err(e) => err_name(&e),
        },
        _ => "np".into(),
    }
}

fn do_try_response(st: &mut St, win: &[u8], track: bool) -> String {
    match &mut st.obj {
        Obj::RecvResponse(f) => match f.try_response(win) {
            Ok((n, r)) => {
                if track {
                    st.consumed += n;
                }
                match r {
                    None => format!("none #{}", n),
                    Some(r) => format!("some #{} {}", n, obs_response(&r)),
                }
            }
            Err(e) => err_name(&e),
        },
        // single-call API (explicit windows only)
        Obj::CallRecvResponse(c) if !track => match c.try_response(win) {
            Ok(None) => "none #0".into(),
            Ok(Some((n, r))) => format!("some #{} {}", n, obs_response(&r)),
            Err(e) => err_name(&e),
        },
        _ => "np".into(),
    }
}

fn do_read(st: &mut St, win: &[u8], cap: usize, track: bool) -> String {
    match &mut st.obj {
        Obj::RecvBody(f) => {
            let mut out = outbuf(cap);
            match f.read(win, &mut out) {
                Ok((i, o)) => {
                    if track {
                        st.consumed += i;
                    }
                    format!("ok #{} #{} {}", i, o, hex(&out[..o]))
                }
                Err(e) => err_name(&e),
            }
        }
        Obj::CallRecvBody(c) if !track => {
            let mut out = outbuf(cap);
            match c.read(win, &mut out) {
                Ok((i, o)) => format!("ok #{} #{} {}", i, o, hex(&out[..o])),
                Err(e) => err_name(&e),
            }
        }
        _ => "np".into(),
    }
}

fn do_proceed(st: &mut St) -> String {
    let obj = std::mem::replace(&mut st.obj, Obj::None);
    let (obj, s): (Obj, String) = match obj {
        Obj::Prepare(f) => (Obj::SendRequest(f.proceed()), "state SendRequest".into()),
        Obj::SendRequest(f) => {
            if !f.can_proceed() {
                // proceed() consumes the flow and returns None: the model "stays".
                (Obj::SendRequest(f), "stay".into())
            } else {
                match f.proceed() {
                    Ok(Some(SendRequestResult::Await100(v))) => (Obj::Await100(v), "state Await100".into()),
                    Ok(Some(SendRequestResult::SendBody(v))) => (Obj::SendBody(v), "state SendBody".into()),
                    Ok(Some(SendRequestResult::RecvResponse(v))) => {
                        (Obj::RecvResponse(v), "state RecvResponse".into())
                    }
                    Ok(None) => (Obj::None, "lost can_proceed-true-but-None".into()),
                    Err(e) => (Obj::None, err_name(&e)),
                }
            }
        }
        Obj::Await100(f) => match f.proceed() {
            Ok(Await100Result::SendBody(v)) => (Obj::SendBody(v), "state SendBody".into()),
            Ok(Await100Result::RecvResponse(v)) => (Obj::RecvResponse(v), "state RecvResponse".into()),
            Err(e) => (Obj::None, err_name(&e)),
        },
        Obj::SendBody(f) => {
            if !f.can_proceed() {
                (Obj::SendBody(f), "stay".into())
            } else {
                match f.proceed() {
                    Some(v) => (Obj::RecvResponse(v), "state RecvResponse".into()),
                    None => (Obj::None, "lost can_proceed-true-but-None".into()),
                }
            }
        }
        Obj::RecvResponse(f) => {
            if !f.can_proceed() {
                (Obj::RecvResponse(f), "stay".into())
            } else {
                match f.proceed() {
                    Some(RecvResponseResult::RecvBody(v)) => (Obj::RecvBody(v), "state RecvBody".into()),
                    Some(RecvResponseResult::Redirect(v)) => (Obj::Redirect(v), "state Redirect".into()),
                    Some(RecvResponseResult::Cleanup(v)) => (Obj::Cleanup(v), "state Cleanup".into()),
                    None => (Obj::None, "lost can_proceed-true-but-None".into()),
                }
            }
        }
        Obj::RecvBody(f) => {
            if !f.can_proceed() {
                (Obj::RecvBody(f), "stay".into())
            } else {
                match f.proceed() {
                    Some(RecvBodyResult::Redirect(v)) => (Obj::Redirect(v), "state Redirect".into()),
                    Some(RecvBodyResult::Cleanup(v)) => (Obj::Cleanup(v), "state Cleanup".into()),
                    None => (Obj::None, "lost can_proceed-true-but-None".into()),
                }
            }
        }
        Obj::Redirect(f) => (Obj::Cleanup(f.proceed()), "state Cleanup".into()),
        // the single-call API: into_receive / into_body consume the call
        Obj::CallWithout(c) => match c.into_receive() {
            Ok(v) => (Obj::CallRecvResponse(v), "call RecvResponse".into()),
            Err(e) => (Obj::None, err_name(&e)),
        },
        Obj::CallWith(c) => match c.into_receive() {
            Ok(v) => (Obj::CallRecvResponse(v), "call RecvResponse".into()),
            Err(e) => (Obj::None, err_name(&e)),
        },
        Obj::CallRecvResponse(c) => match c.into_body() {
            Ok(Some(v)) => (Obj::CallRecvBody(v), "call RecvBody".into()),
            Ok(None) => (Obj::None, "none".into()),
            Err(e) => (Obj::None, err_name(&e)),
        },
        other => (other, "np".into()),
    };
    st.obj = obj;
    s
}

/// `proceed` when `can_proceed()` is false consumes the flow in the real API and returns None.
/// To exercise exactly that (C09: premature advance attempts) without losing the flow for the rest
/// of the script, `proceed!` calls the real proceed() on a flow that is not ready only through this
/// helper's caller above, which checks can_proceed() first; the premature call itself is made by
/// the dedicated operation `premature`, which ends the script's use of the object.
fn do_premature(st: &mut St) -> String {
    let obj = std::mem::replace(&mut st.obj, Obj::None);
    match obj {
        Obj::SendRequest(f) => match f.proceed() {
            Ok(None) => "none".into(),
            Ok(Some(_)) => "some".into(),
            Err(e) => err_name(&e),
        },
        Obj::SendBody(f) => match f.proceed() {
            None => "none".into(),
            Some(_) => "some".into(),
        },
        Obj::RecvResponse(f) => match f.proceed() {
            None => "none".into(),
            Some(_) => "some".into(),
        },
        Obj::RecvBody(f) => match f.proceed() {
            None => "none".into(),
            Some(_) => "some".into(),
        },
        other => {
            st.obj = other;
            "np".into()
        }
    }
}

fn step(st: &mut St, toks: &[Tok]) -> String {
    let name = match &toks[0] {
        Tok::W(w) => w.as_str(),
        _ => return "badop".into(),
    };
    let args = &toks[1..];
    match (name, args) {
        ("new", _) => match build_request(args) {
            Ok(req) => match Flow::new(req) {
                Ok(f) => {
                    st.obj = Obj::Prepare(f);
                    st.next = None;
                    st.sent = 0;
                    "ok".into()
                }
                Err(e) => err_name(&e),
            },
            Err(s) => s,
        },
        ("call_without", _) => match build_request(args) {
            Ok(req) => match Call::without_body(req) {
                Ok(c) => {
                    st.obj = Obj::CallWithout(c);
                    "ok".into()
                }
                Err(e) => err_name(&e),
            },
            Err(s) => s,
        },
        ("call_with", _) => match build_request(args) {
            Ok(req) => match Call::with_body(req) {
                Ok(c) => {
                    st.obj = Obj::CallWith(c);
                    "ok".into()
                }
                Err(e) => err_name(&e),
            },
            Err(s) => s,
        },
        ("body", [Tok::H(bd)]) => {
            st.body = bd.clone();
            st.sent = 0;
            "ok".into()
        }
        ("stream", [Tok::H(bd)]) => {
            st.stream = bd.clone();
            st.arrived = 0;
            st.consumed = 0;
            "ok".into()
        }
        ("arrive", [Tok::N(k)]) => {
            st.arrived = st.stream.len().min(st.arrived.saturating_add(clamp(*k)));
            "ok".into()
        }
        ("parse_response", [Tok::N(n), Tok::H(w)]) => parse_response_n(*n as usize, w),
        ("parse_partial", [Tok::N(n), Tok::H(w)]) => parse_partial_n(*n as usize, w),
        ("parse_request", [Tok::N(n), Tok::H(w)]) => parse_request_n(*n as usize, w),
        ("header", [Tok::H(k), Tok::H(v)]) => match &mut st.obj {
            Obj::Prepare(f) => match f.header(&k[..], &v[..]) {
                Ok(()) => "ok".into(),
                Err(e) => err_name(&e),
            },
            _ => "np".into(),
        },
        ("despite", []) => match &mut st.obj {
            Obj::Prepare(f) => {
                f.send_body_despite_method();
                "ok".into()
            }
            _ => "np".into(),
        },
        ("proceed", []) => do_proceed(st),
        ("premature", []) => do_premature(st),
        ("write_head", [Tok::N(cap)]) => {
            let mut out = outbuf(clamp(*cap));
            let r = match &mut st.obj {
                Obj::SendRequest(f) => f.write(&mut out),
                Obj::CallWithout(c) => c.write(&mut out),
                _ => return "np".into(),
            };
            match r {
                Ok(n) => format!("ok #{} {}", n, hex(&out[..n])),
                Err(e) => err_name(&e),
            }
        }
        ("write_body", [Tok::H(input), Tok::N(cap)]) => do_write_body(st, input, clamp(*cap), false, false),
        ("write_sum", [Tok::H(input), Tok::N(cap)]) => do_write_body(st, input, clamp(*cap), false, true),
        ("write_from", [Tok::N(t), Tok::N(cap)]) => {
            let from = st.sent.min(st.body.len());
            let to = from.saturating_add(clamp(*t)).min(st.body.len());
            let input = st.body[from..to].to_vec();
            do_write_body(st, &input, clamp(*cap), true, true)
        }
        ("direct", [Tok::N(a)]) => match &mut st.obj {
            Obj::SendBody(f) => match f.consume_direct_write(clamp(*a)) {
                Ok(()) => "ok".into(),
                Err(e) => err_name(&e),
            },
            _ => "np".into(),
        },
        ("try100", []) => {
            let w = window(st);
            do_try100(st, &w, true)
        }
        ("raw_try100", [Tok::H(w)]) => do_try100(st, w, false),
        ("try_response", []) => {
            let w = window(st);
            do_try_response(st, &w, true)
        }
        ("raw_try_response", [Tok::H(w)]) => do_try_response(st, w, false),
        ("read", [Tok::N(cap)]) => {
            let w = window(st);
            do_read(st, &w, clamp(*cap), true)
        }
        ("raw_read", [Tok::H(w), Tok::N(cap)]) => do_read(st, w, clamp(*cap), false),
        ("stop", [Tok::N(v)]) => match &mut st.obj {
            Obj::RecvBody(f) => {
                f.stop_on_chunk_boundary(*v != 0);
                "ok".into()
            }
            Obj::CallRecvBody(c) => {
                c.stop_on_chunk_boundary(*v != 0);
                "ok".into()
            }
            _ => "np".into(),
        },
        ("as_new_flow", [Tok::W(p)]) => {
            let policy = match p.as_str() {
                "never" => RedirectAuthHeaders::Never,
                "same_host" => RedirectAuthHeaders::SameHost,
                _ => return "badop".into(),
            };
            match &mut st.obj {
                Obj::Redirect(f) => match f.as_new_flow(policy) {
                    Ok(Some(n)) => {
                        st.next = Some(n);
                        "some".into()
                    }
                    Ok(None) => "none".into(),
                    Err(e) => err_name(&e),
                },
                _ => "np".into(),
            }
        }
        ("follow", []) => match st.next.take() {
            Some(n) => {
                st.obj = Obj::Prepare(n);
                st.sent = 0;
                "ok".into()
            }
            None => "np".into(),
        },
        ("q_can_proceed", []) => match &st.obj {
            Obj::SendRequest(f) => b(f.can_proceed()),
            Obj::SendBody(f) => b(f.can_proceed()),
            Obj::RecvResponse(f) => b(f.can_proceed()),
            Obj::RecvBody(f) => b(f.can_proceed()),
            _ => "np".into(),
        },
        ("q_keep_await", []) => match &st.obj {
            Obj::Await100(f) => b(f.can_keep_await_100()),
            _ => "np".into(),
        },
        ("q_is_chunked", []) => match &mut st.obj {
            Obj::SendBody(f) => b(f.is_chunked()),
            _ => "np".into(),
        },
        ("q_max_input", [Tok::N(n)]) => match &mut st.obj {
            Obj::SendBody(f) => format!("#{}", f.calculate_max_input(clamp(*n))),
            _ => "np".into(),
        },
        ("q_boundary", []) => match &st.obj {
            Obj::RecvBody(f) => b(f.is_on_chunk_boundary()),
            Obj::CallRecvBody(c) => b(c.is_on_chunk_boundary()),
            _ => "np".into(),
        },
        ("q_body_mode", []) => match &st.obj {
            Obj::RecvBody(f) => match f.body_mode() {
                BodyMode::NoBody => "nobody".into(),
                BodyMode::LengthDelimited(n) => format!("length #{}", n),
                BodyMode::Chunked => "chunked".into(),
                BodyMode::CloseDelimited => "close".into(),
            },
            _ => "np".into(),
        },
        ("q_must_close", []) => match &st.obj {
            Obj::Redirect(f) => b(f.must_close_connection()),
            Obj::Cleanup(f) => b(f.must_close_connection()),
            _ => "np".into(),
        },
        ("q_close_reason", []) => {
            let r = match &st.obj {
                Obj::Redirect(f) => f.close_reason(),
                Obj::Cleanup(f) => f.close_reason(),
                _ => return "np".into(),
            };
            match r {
                Some(s) => format!("some {}", hex(s.as_bytes())),
                None => "none".into(),
            }
        }
        ("q_status", []) => match &st.obj {
            Obj::Redirect(f) => format!("#{}", f.status().as_u16()),
            _ => "np".into(),
        },
        ("q_method", []) => match &st.obj {
            Obj::Prepare(f) => f.method().as_str().to_string(),
            Obj::SendRequest(f) => f.method().as_str().to_string(),
            _ => "np".into(),
        },
        ("q_uri", []) => {
            let u = match &st.obj {
                Obj::Prepare(f) => f.uri(),
                Obj::SendRequest(f) => f.uri(),
                _ => return "np".into(),
            };
            format!(
                "{} {} {}",
                hex(u.scheme_str().unwrap_or("").as_bytes()),
                hex(u.authority().map(|a| a.as_str()).unwrap_or("").as_bytes()),
                hex(u.path_and_query().map(|p| p.as_str()).unwrap_or("").as_bytes())
            )
        }
        ("q_version", []) => match &st.obj {
            Obj::Prepare(f) => version_name(f.version()).to_string(),
            Obj::SendRequest(f) => version_name(f.version()).to_string(),
            _ => "np".into(),
        },
        ("q_headers", []) => match &st.obj {
            Obj::Prepare(f) => obs_headers(f.headers().iter()),
            _ => "np".into(),
        },
        ("headers_map", []) => match &mut st.obj {
            Obj::SendRequest(f) => match f.headers_map() {
                Ok(m) => obs_headers(m.iter()),
                Err(e) => err_name(&e),
            },
            _ => "np".into(),
        },
        ("q_is_finished", []) => match &st.obj {
            Obj::CallWithout(c) => b(c.is_finished()),
            Obj::CallWith(c) => b(c.is_finished()),
            Obj::CallRecvResponse(c) => b(c.is_finished()),
            Obj::CallRecvBody(c) => b(c.is_ended()),
            _ => "np".into(),
        },
        _ => "badop".into(),
    }
}

macro_rules! with_n {
    ($n:expr, $f:ident, $w:expr) => {
        match $n {
            0 => $f::<0>($w),
            1 => $f::<1>($w),
            2 => $f::<2>($w),
            3 => $f::<3>($w),
            4 => $f::<4>($w),
            5 => $f::<5>($w),
            6 => $f::<6>($w),
            8 => $f::<8>($w),
            16 => $f::<16>($w),
            32 => $f::<32>($w),
            64 => $f::<64>($w),
            128 => $f::<128>($w),
            129 => $f::<129>($w),
            130 => $f::<130>($w),
            256 => $f::<256>($w),
            _ => return "badop unsupported-N".into(),
        }
    };
}

fn parse_response_n(n: usize, w: &[u8]) -> String {
    match with_n!(n, try_parse_response, w) {
        Ok(None) => "none".into(),
        Ok(Some((used, r))) => format!("some #{} {}", used, obs_response(&r)),
        Err(e) => err_name(&e),
    }
}

fn parse_partial_n(n: usize, w: &[u8]) -> String {
    match with_n!(n, try_parse_partial_response, w) {
        Ok(None) => "none".into(),
        Ok(Some(r)) => format!("some {}", obs_response(&r)),
        Err(e) => err_name(&e),
    }
}

fn parse_request_n(n: usize, w: &[u8]) -> String {
    match with_n!(n, try_parse_request, w) {
        Ok(None) => "none".into(),
        Ok(Some((used, r))) => format!(
            "some #{} {} #{} {}",
            used,
            hex(r.method().as_str().as_bytes()),
            ver_num(r.version()),
            obs_headers(r.headers().iter())
        ),
        Err(e) => err_name(&e),
    }
}

fn main() {
    std::panic::set_hook(Box::new(|_| {}));
    let stdin = io::stdin();
    let stdout = io::stdout();
    let mut out = io::BufWriter::new(stdout.lock());
    let mut st = St {
        obj: Obj::None,
        next: None,
        stream: vec![],
        arrived: 0,
        consumed: 0,
        body: vec![],
        sent: 0,
    };
    let mut dead = false;
    for line in stdin.lock().lines() {
        let line = line.unwrap();
        if line.starts_with("S ") {
            st = St {
                obj: Obj::None,
                next: None,
                stream: vec![],
                arrived: 0,
                consumed: 0,
                body: vec![],
                sent: 0,
            };
            dead = false;
            writeln!(out, "{}", line).unwrap();
            // make the script id visible early: a hang is attributable to the last id printed
            out.flush().unwrap();
            continue;
        }
        if line == "E" {
            writeln!(out, "E").unwrap();
            continue;
        }
        if line.is_empty() || dead {
            continue;
        }
        let toks: Vec<Tok> = line.split(' ').filter(|s| !s.is_empty()).map(parse_tok).collect();
        let r = catch_unwind(AssertUnwindSafe(|| step(&mut st, &toks)));
        match r {
            Ok(s) => writeln!(out, "{}", s).unwrap(),
            Err(_) => {
                writeln!(out, "panic").unwrap();
                dead = true;
            }
        }
    }
    out.flush().unwrap();
}
