//! Demonstrations of the findings F1..F18 of DESIGN.md section 6 against the real crate.
//! Prints one line per finding: `Fxx DEFECT <what>` when the defect manifests, `Fxx ok` otherwise.
//! Used by hand before/after each `fix:` commit in /repo; not part of any registered check.

use std::panic::{catch_unwind, AssertUnwindSafe};

use ureq_proto::client::flow::state::*;
use ureq_proto::client::flow::*;
use ureq_proto::http::{Request, Version};
use ureq_proto::parser::*;
use ureq_proto::Error;

fn report(id: &str, defect: Option<String>) {
    match defect {
        Some(d) => println!("{} DEFECT {}", id, d),
        None => println!("{} ok", id),
    }
}

fn guard<F: FnOnce() -> Option<String>>(id: &str, f: F) {
    let r = catch_unwind(AssertUnwindSafe(f));
    match r {
        Ok(v) => report(id, v),
        Err(_) => report(id, Some("panic".to_string())),
    }
}

fn send_head(mut flow: Flow<(), SendRequest>) -> SendRequestResult<()> {
    let mut out = vec![0u8; 4096];
    flow.write(&mut out).unwrap();
    flow.proceed().unwrap().unwrap()
}

fn to_send_body(req: Request<()>) -> Flow<(), SendBody> {
    match send_head(Flow::new(req).unwrap().proceed()) {
        SendRequestResult::SendBody(v) => v,
        _ => panic!("not send body"),
    }
}

fn to_recv_response_get(req: Request<()>) -> Flow<(), RecvResponse> {
    match send_head(Flow::new(req).unwrap().proceed()) {
        SendRequestResult::RecvResponse(v) => v,
        _ => panic!("not recv response"),
    }
}

fn to_redirect(req: Request<()>, resp: &[u8]) -> Flow<(), Redirect> {
    let mut f = to_recv_response_get(req);
    f.try_response(resp).unwrap();
    match f.proceed().unwrap() {
        RecvResponseResult::Redirect(v) => v,
        _ => panic!("not redirect"),
    }
}

fn head_of(flow: Flow<(), Prepare>) -> String {
    let mut f = flow.proceed();
    let mut out = vec![0u8; 4096];
    let n = f.write(&mut out).unwrap();
    String::from_utf8_lossy(&out[..n]).to_string()
}

fn main() {
    std::panic::set_hook(Box::new(|_| {}));

    guard("F1", || {
        let req = Request::get("http://a.test/").version(Version::HTTP_2).body(()).unwrap();
        let mut f = Flow::new(req).unwrap().proceed();
        let mut out = vec![0u8; 1024];
        match f.write(&mut out) {
            Ok(n) => Some(format!("HTTP/2 head written: {:?}", String::from_utf8_lossy(&out[..n]))),
            Err(_) => None,
        }
    });

    guard("F2", || {
        let req = Request::post("http://a.test/").header("expect", "100-continue").body(()).unwrap();
        let mut f = match send_head(Flow::new(req).unwrap().proceed()) {
            SendRequestResult::Await100(v) => v,
            _ => panic!(),
        };
        let resp = b"HTTP/1.1 403 Forbidden\r\n\r\n";
        f.try_read_100(resp).unwrap();
        let mut f = match f.proceed().unwrap() {
            Await100Result::RecvResponse(v) => v,
            _ => return Some("not RecvResponse".into()),
        };
        let (n, r) = f.try_response(resp).unwrap();
        if n == resp.len() && r.is_some() { None } else { Some("response not returned".into()) }
    });

    guard("F3", || {
        let req = Request::get("http://a.test/").body(()).unwrap();
        let mut f = Flow::new(req).unwrap();
        f.send_body_despite_method();
        let mut f = match send_head(f.proceed()) {
            SendRequestResult::SendBody(v) => v,
            _ => panic!(),
        };
        let mut out = vec![0u8; 1024];
        let r1 = f.write(b"hi", &mut out);
        let r2 = f.write(&[], &mut out);
        if r1.is_err() { Some(format!("write refused: {:?} then {:?}", r1, r2)) } else { None }
    });

    guard("F4", || {
        let req = Request::post("http://a.test/").body(()).unwrap();
        let mut f = to_send_body(req);
        let mut out = vec![0u8; 5];
        let (i, o) = f.write(b"hello", &mut out).unwrap();
        if o > 0 && i == 0 { Some(format!("emitted {:?} consuming 0", String::from_utf8_lossy(&out[..o]))) } else { None }
    });

    guard("F5", || {
        let req = Request::post("http://a.test/").body(()).unwrap();
        let mut f = to_send_body(req);
        let mut out = vec![0u8; 4];
        let (_, o) = f.write(&[], &mut out).unwrap();
        if o == 0 && f.can_proceed() { Some("finished although terminator not written".into()) } else { None }
    });

    guard("F6", || {
        let req = Request::post("http://a.test/").body(()).unwrap();
        let mut f = to_send_body(req);
        let mut out = vec![0u8; 64];
        let (_, o1) = f.write(&[], &mut out).unwrap();
        let (_, o2) = f.write(&[], &mut out).unwrap();
        if o1 == 5 && o2 > 0 { Some("second terminator".into()) } else { None }
    });

    guard("F7", || {
        let req = Request::post("http://a.test/").body(()).unwrap();
        let mut f = to_send_body(req);
        let mut out = vec![0u8; 21];
        let input = vec![b'x'; 30000];
        let (i, o) = f.write(&input, &mut out).unwrap();
        if i == 0 { Some(format!("no progress: ({}, {}) with 21 bytes of output", i, o)) } else { None }
    });

    guard("F8", || {
        let req = Request::post("http://a.test/").body(()).unwrap();
        let mut f = Flow::new(req).unwrap().proceed();
        let mut out = vec![0u8; 1024];
        f.write(&mut out).unwrap();
        let n = f.write(&mut out).unwrap();
        if n > 0 { Some(format!("second write emitted {:?}", String::from_utf8_lossy(&out[..n]))) } else { None }
    });

    guard("F9", || {
        let mut bad = vec![];
        for k in 0..8 {
            let full = b"HTTP/1.1 200 OK\r\n\r\n";
            if try_parse_partial_response::<4>(&full[..k]).is_err() {
                bad.push(k);
            }
        }
        let req = Request::get("http://a.test/").body(()).unwrap();
        let mut f = to_recv_response_get(req);
        let flow_err = f.try_response(b"HTT").is_err();
        if bad.is_empty() && !flow_err { None } else { Some(format!("partial parser errs on prefixes {:?}; flow errs: {}", bad, flow_err)) }
    });

    guard("F10", || {
        let req = Request::get("http://a.test/").body(()).unwrap();
        let mut f = to_recv_response_get(req);
        let (n, r) = f.try_response(b"HTTP/1.1 302 Found\r\nLocation: /x\r\nSet-Coo").unwrap();
        if r.is_some() { Some(format!("truncated redirect returned, consumed {}", n)) } else { None }
    });

    guard("F11a", || {
        let req = Request::post("http://a.test/").header("expect", "100-continue").body(()).unwrap();
        let mut f = match send_head(Flow::new(req).unwrap().proceed()) {
            SendRequestResult::Await100(v) => v,
            _ => panic!(),
        };
        for _ in 0..5 {
            let _ = f.try_read_100(b"HTTP/1.1 403 Forbidden\r\n\r\n");
        }
        None
    });

    guard("F11b", || {
        let req = Request::get("http://a.test/").version(Version::HTTP_10).header("connection", "close").body(()).unwrap();
        let mut f = to_recv_response_get(req);
        for _ in 0..3 {
            let _ = f.try_response(b"HTTP/1.1 200 OK\r\nConnection: close\r\nContent-Length: 0\r\n\r\n");
        }
        None
    });

    guard("F11c", || {
        let req = Request::post("http://a.test/").version(Version::HTTP_10).header("connection", "close").header("expect", "100-continue").body(()).unwrap();
        let mut f = match send_head(Flow::new(req).unwrap().proceed()) {
            SendRequestResult::Await100(v) => v,
            _ => panic!(),
        };
        let resp = b"HTTP/1.1 403 Forbidden\r\nConnection: close\r\n\r\n";
        f.try_read_100(resp).unwrap();
        let mut f = match f.proceed().unwrap() {
            Await100Result::RecvResponse(v) => v,
            _ => return Some("not RecvResponse".into()),
        };
        f.try_response(resp).unwrap();
        match f.proceed().unwrap() {
            RecvResponseResult::RecvBody(_) => None,
            _ => Some("not RecvBody".into()),
        }
    });

    guard("F12", || {
        let mut head = b"HTTP/1.1 200 OK\r\n".to_vec();
        head.extend(std::iter::repeat(b'a').take(70000));
        head.extend_from_slice(b": v\r\n\r\n");
        let _ = try_parse_response::<4>(&head);
        let _ = try_parse_partial_response::<4>(&head);
        let mut rq = b"GET / HTTP/1.1\r\n".to_vec();
        rq.extend(std::iter::repeat(b'a').take(70000));
        rq.extend_from_slice(b": v\r\n\r\n");
        let _ = try_parse_request::<4>(&rq);
        None
    });

    guard("F13", || {
        let req = Request::get("http://a.test/").body(()).unwrap();
        let mut f = to_redirect(req, b"HTTP/1.1 302 Found\r\nLocation: /x\r\n\r\n");
        let mut n = f.as_new_flow(RedirectAuthHeaders::Never).unwrap().unwrap();
        n.header("cookie", "a=b").unwrap();
        let h = head_of(n);
        if h.contains("cookie: a=b") { None } else { Some(format!("added cookie missing from {:?}", h)) }
    });

    guard("F14", || {
        let req = Request::get("http://a.test/").header("host", "a.test").body(()).unwrap();
        let mut f = to_redirect(req, b"HTTP/1.1 302 Found\r\nLocation: http://b.test/y\r\n\r\n");
        let n = f.as_new_flow(RedirectAuthHeaders::Never).unwrap().unwrap();
        let h = head_of(n);
        if h.contains("host: a.test") { Some(format!("stale host in {:?}", h)) } else { None }
    });

    guard("F15", || {
        let mut res = vec![];
        for cl in [&b"+5"[..], &b"\xff"[..]] {
            let req = Request::get("http://a.test/").body(()).unwrap();
            let mut f = to_recv_response_get(req);
            let mut resp = b"HTTP/1.1 200 OK\r\nContent-Length: ".to_vec();
            resp.extend_from_slice(cl);
            resp.extend_from_slice(b"\r\n\r\n");
            if f.try_response(&resp).is_ok() {
                res.push(String::from_utf8_lossy(cl).to_string());
            }
        }
        if res.is_empty() { None } else { Some(format!("non-numeric content-length accepted: {:?}", res)) }
    });

    guard("F16", || {
        let req = Request::post("http://a.test/").header("content-length", "+5").body(()).unwrap();
        let mut f = Flow::new(req).unwrap().proceed();
        let mut out = vec![0u8; 1024];
        match f.write(&mut out) {
            Ok(n) => Some(format!("written: {:?}", String::from_utf8_lossy(&out[..n]))),
            Err(Error::BadContentLengthHeader) => None,
            Err(e) => Some(format!("other error {:?}", e)),
        }
    });

    guard("F17", || {
        let req = Request::get("http://a.test/").body(()).unwrap();
        let mut f = to_recv_response_get(req);
        f.try_response(b"HTTP/1.1 200 OK\r\nTransfer-Encoding: chunked\r\n\r\n").unwrap();
        let mut f = match f.proceed().unwrap() {
            RecvResponseResult::RecvBody(v) => v,
            _ => panic!(),
        };
        let mut out = vec![0u8; 64];
        match f.read(b"5;name=abcdefghijklmnopqrstuvwxyz\r\nhello\r\n0\r\n\r\n", &mut out) {
            Ok(_) => None,
            Err(e) => Some(format!("valid coding rejected: {:?}", e)),
        }
    });

    guard("F18", || {
        let req = Request::get("http://a.test/").body(()).unwrap();
        let mut f = to_redirect(req, b"HTTP/1.1 302 Found\r\nLocation: /x\r\n\r\n");
        let _ = f.as_new_flow(RedirectAuthHeaders::Never);
        let _ = f.as_new_flow(RedirectAuthHeaders::Never);
        None
    });

    // F19: request whose URI has no scheme/authority (origin-form, explicit Host header): following a redirect panics
    guard("F19", || {
        let req = Request::builder().method("GET").uri("/x").header("host", "a.test").body(()).unwrap();
        let mut r = to_redirect(req, b"HTTP/1.1 302 Found\r\nLocation: /y\r\nContent-Length: 0\r\n\r\n");
        match r.as_new_flow(RedirectAuthHeaders::Never) {
            Err(_) => None,
            Ok(_) => None,
        }
    });
}
